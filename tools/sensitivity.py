#!/usr/bin/env python3
"""./check selftest-sensitivity [id...] — apply each kept change under seeded/ to /repo, run the checks that should
(or, for neutral-* changes, should not) fire, undo the change. Prints one line per (change, check).

Mutates /repo temporarily (git apply / git checkout -- .); refuses to start on a dirty tree.
Set VERIF_NO_MIRI=1 to skip the interpreter engines (changes that need them are then reported as 'skipped')."""
import json, os, subprocess, sys, glob

VERIF = os.path.dirname(os.path.dirname(os.path.abspath(__file__)))
REPO = os.environ.get("VERIF_REPO", "/repo")

def sh(cmd, **kw):
    return subprocess.run(cmd, capture_output=True, text=True, **kw)

def main():
    want = sys.argv[1:]
    is_git = os.path.isdir(os.path.join(REPO, ".git")) or os.path.isfile(os.path.join(REPO, ".git"))
    if is_git and sh(["git", "-C", REPO, "diff", "--quiet"]).returncode != 0:
        print("HARNESS-ERROR: the repository under test has uncommitted changes"); return 2
    bad = 0
    rows = []
    for d in sorted(glob.glob(os.path.join(VERIF, "seeded", "*"))):
        mid = os.path.basename(d)
        if want and mid not in want:
            continue
        meta = json.load(open(os.path.join(d, "meta.json")))
        neutral = meta.get("expect") == "silent"
        checks = ["C03", "C04", "C12", "C14", "C15", "C16"] if neutral else meta.get("run_checks") or [meta["breaks_property"]]
        if meta.get("needs_engine") == "miri" and os.environ.get("VERIF_NO_MIRI"):
            rows.append((mid, "-", "skipped (needs the Miri engine)")); continue
        if sh(["git", "apply", os.path.join(d, "patch.diff")], cwd=REPO).returncode != 0:
            rows.append((mid, "-", "PATCH DOES NOT APPLY")); bad += 1; continue
        try:
            for c in checks:
                env = dict(os.environ)
                if neutral or meta.get("needs_engine") != "miri":
                    env["VERIF_NO_MIRI"] = "1"
                p = sh([os.path.join(VERIF, "check"), c, "--tier", "quick"], env=env)
                fired = p.returncode == 1 and f"VIOLATION property={c}" in p.stdout
                if p.returncode == 2:
                    verdict = "HARNESS-ERROR"; bad += 1
                elif neutral:
                    verdict = "silent (expected)" if p.returncode == 0 else "ALARM ON A BEHAVIOUR-PRESERVING EDIT"
                    bad += p.returncode != 0
                elif meta.get("expect") == "missed":
                    # a documented limit (DESIGN 12.4): kept so that the table says so instead of omitting it
                    verdict = "caught (better than documented)" if fired else "missed (documented limit)"
                    fired = False
                else:
                    verdict = "caught" if fired else "MISSED"
                    bad += not fired
                    if fired:
                        # the replay file must reproduce while the change is applied
                        import re
                        m = re.search(r"^VIOLATION property=%s replay=(\S+)" % c, p.stdout, re.M)
                        rp = sh([os.path.join(VERIF, "check"), "replay", m.group(1)], env=env) if m else None
                        if rp is None or rp.returncode != 1 or "REPRODUCED" not in rp.stdout:
                            verdict += " BUT REPLAY DID NOT REPRODUCE"
                            bad += 1
                        else:
                            verdict += ", replay reproduces"
                rows.append((mid, c, verdict))
                print(f"{mid:36} {c}  {verdict}", flush=True)
        finally:
            sh(["git", "apply", "-R", os.path.join(d, "patch.diff")], cwd=REPO)
    for f in glob.glob(os.path.join(VERIF, "replays", "*")):
        os.remove(f)
    print(f"sensitivity: {len(rows)} (change, check) pairs, {bad} not as expected")
    return 1 if bad else 0

if __name__ == "__main__":
    sys.exit(main())
