#!/bin/bash
# evalmut.sh <patch.diff> <ID>... : apply a change to /repo, run the quick checks named, undo it.
p="$1"; shift
git -C /repo diff --quiet || { echo "/repo is dirty"; exit 2; }
git -C /repo apply "$p" || { echo "patch does not apply to /repo"; exit 2; }
for id in "$@"; do
  echo "=== $id"
  /verif/check "$id" --tier quick 2>&1 | grep -E "VIOLATION|KNOWN-FINDING|HARNESS|^OK|^note|runs=|cases=" | cut -c1-400 | head -12
  echo "exit=${PIPESTATUS[0]}"
done
git -C /repo apply -R "$p" || git -C /repo checkout -- .
find /verif/replays -type f -newer "$p" -name '*.json' | head -3
