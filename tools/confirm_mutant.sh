#!/bin/bash
# confirm_mutant.sh <worktree>: baseline tests pass with the change; demo fails with it and passes without.
# Expects <worktree>/_mutant/{patch.diff,demo/run.sh}. Prints a one-line verdict per step.
wt="$1"; m="$wt/_mutant"
cd "$wt" || exit 2
clean() { git reset -q 2>/dev/null; git checkout -q -- . 2>/dev/null; git clean -fdq -e _mutant -e target -e 'target*' 2>/dev/null; }
clean
git apply "$m/patch.diff" || { echo "CONFIRM patch does not apply"; exit 2; }
if cargo test --workspace --offline >"$m/confirm_tests.log" 2>&1; then echo "CONFIRM baseline-tests-with-change: pass"; else echo "CONFIRM baseline-tests-with-change: FAIL"; fi
if bash "$m/demo/run.sh" >"$m/confirm_demo_with.log" 2>&1; then echo "CONFIRM demo-with-change: pass (unexpected)"; else echo "CONFIRM demo-with-change: fails (expected)"; fi
clean
if bash "$m/demo/run.sh" >"$m/confirm_demo_without.log" 2>&1; then echo "CONFIRM demo-without-change: pass (expected)"; else echo "CONFIRM demo-without-change: FAILS (unexpected)"; fi
git apply "$m/patch.diff"
