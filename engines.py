#!/usr/bin/env python3
"""Orchestrates the interpreter (Miri) and shuttle engines, merges what they covered
into evidence/<ID>.json and prints VIOLATION / KNOWN-FINDING lines.

  engines.py post <ID> <tier> <seed>      run the extra engines for a property (after the native engine)
  engines.py replay <file>                replay a miri / shuttle replay file
  engines.py warm                         build the Miri and shuttle binaries (setup)

exit: 0 held, 1 violation, 2 harness error.
"""
import json, os, re, subprocess, sys, time, hashlib
from concurrent.futures import ThreadPoolExecutor

VERIF = os.path.dirname(os.path.abspath(__file__))
BUILD = os.environ.get("VERIF_BUILD", os.path.join(VERIF, ".build"))
WS = os.path.join(BUILD, "ws")
NATIVE = os.path.join(BUILD, "target", "release", "sim-native")
SHUTTLE = os.path.join(BUILD, "target-shuttle", "release", "sim-shuttle")
MIRI_TARGET_DIR = os.path.join(BUILD, "target-miri")
REPLAYS = os.path.join(VERIF, "replays")
KNOWN = os.path.join(VERIF, "known_findings.json")
TARGETS = {"x86_64": "x86_64-unknown-linux-gnu", "i686": "i686-unknown-linux-gnu", "aarch64": "aarch64-unknown-linux-gnu",
           # x86_64 with the AES-NI arm live under the interpreter: detection granted, _mm_aeskeygenassist_si128 modelled
           "x86_64-ni": "x86_64-unknown-linux-gnu",
           # the same on 32-bit x86 (code under cfg(target_arch = "x86") with the AES-NI arm live)
           "i686-ni": "i686-unknown-linux-gnu",
           # big-endian 64-bit target: byte-order assumptions in the portable backends (family sweep only)
           "s390x": "s390x-unknown-linux-gnu",
           # big-endian 32-bit: fixslice32 and Kuznyechik's table backend as a 32-bit big-endian machine sees them
           "powerpc": "powerpc-unknown-linux-gnu"}

# families cheap enough for the interpreter (no big const tables, no 521-encryption key setup)
CHEAP = ["aes128", "aes192", "aes256", "des", "tdes_ede3", "tdes_eee2", "sm4", "xtea", "speck64_128", "speck128_256",
         "rc5_32_12_16", "rc5_64_24_24", "idea", "gift128", "cast5", "cast6", "camellia128", "camellia256", "aria128",
         "aria256", "magma", "gost89_a", "rc2", "twofish", "serpent", "belt", "threefish256"]
# kuznyechik only through compact_soft under Miri (the table builds cost ~20 s of interpretation each)
MIRI_VARIANTS = ["aes_auto", "aes_auto_z", "aes_autoc_z", "aes_autoc", "aes_soft", "aes_soft_z", "aes_softc_z", "aes_softc", "aes_alt_z", "aes_altc_z",
                 "aes_alt", "aes_altc", "kuz_compact_z", "kuz_compact", "serpent", "serpent_z", "serpent_nu_z", "serpent_nu"]


def env_offline():
    e = dict(os.environ)
    e["CARGO_NET_OFFLINE"] = "true"
    return e


WS_A64 = os.path.join(BUILD, "ws-a64")


def miri_cmd(target, miriflags, args):
    e = env_offline()
    e["MIRIFLAGS"] = miriflags
    tdir = MIRI_TARGET_DIR
    if target == "aarch64":
        # #[target_feature(enable = "aes")] functions may only be called when the (simulated) CPU has the feature
        e["RUSTFLAGS"] = "-C target-feature=+aes"
        tdir = os.path.join(BUILD, "target-miri-a64")
        # kuznyechik/src/neon/backends.rs loads 16 bytes through `&sbox[i] as *const u8` (a pointer derived from a
        # reference to ONE byte): Stacked Borrows rejects that, Tree Borrows accepts it. Model choice, not a finding
        # of a claimed property (DESIGN.md 3.4 / 10): aarch64 runs use Tree Borrows; x86_64 and i686 keep Stacked Borrows.
        e["MIRIFLAGS"] = (miriflags + " -Zmiri-tree-borrows").strip()
    if target in ("x86_64-ni", "i686-ni"):
        e["RUSTFLAGS"] = "-C target-feature=+aes"
        tdir = os.path.join(BUILD, "target-miri-ni")
    cmd = ["cargo", "+nightly", "miri", "run", "--offline", "--quiet", "--bin", "sim-miri", "--target", TARGETS[target],
           "--target-dir", tdir, "--"] + args
    return cmd, e


def run_miri(target, miriflags, args, timeout):
    cmd, e = miri_cmd(target, miriflags, args)
    t0 = time.time()
    try:
        p = subprocess.run(cmd, cwd={"aarch64": WS_A64, "x86_64-ni": os.path.join(BUILD, "ws-ni"), "i686-ni": os.path.join(BUILD, "ws-ni")}.get(target, WS), env=e, capture_output=True, text=True, timeout=timeout)
        return p.returncode, p.stdout, p.stderr, time.time() - t0
    except subprocess.TimeoutExpired as ex:
        return -9, (ex.stdout or b"").decode() if isinstance(ex.stdout, bytes) else (ex.stdout or ""), "TIMEOUT", time.time() - t0


def classify_miri_error(stderr):
    """-> (kind, first error line). kind in ub, race, deadlock, unsupported, other, none"""
    m = re.search(r"^error: (.*)$", stderr, re.M)
    if not m:
        return "none", ""
    line = m.group(1)
    if "Data race" in line:
        return "race", line
    if "deadlock" in line:
        return "deadlock", line
    if line.startswith("unsupported operation") or "not supported" in line or "can't call foreign function" in line:
        return "unsupported", line
    if "Undefined Behavior" in line or "memory leaked" in line:
        return "ub", line
    if "aborting due to" in line or "could not compile" in line:
        return "other", line
    return "other", line


def attribute_ub(stderr, last_op_kind):
    bt = stderr
    if "g_clone" in bt or "g_conv_ref" in bt or "g_conv_val" in bt:
        return "C12"
    if "g_new_from_slice" in bt or "g_new_fixed" in bt or "g_drop" in bt:
        return "C15"
    if "g_enc" in bt or "g_dec" in bt:
        return "C04"
    return {"call": "C04", "repeat": "C04", "clone": "C12", "conv": "C12"}.get(last_op_kind, "C15")


def load_known():
    try:
        return json.load(open(KNOWN)).get("findings", [])
    except Exception:
        return []


def known_match(sig):
    for k in load_known():
        if sig.startswith(k.get("signature", "\0")):
            return k
    return None


def write_replay(name, obj):
    os.makedirs(REPLAYS, exist_ok=True)
    p = os.path.join(REPLAYS, name)
    json.dump(obj, open(p, "w"), indent=1)
    return p


# ---------------------------------------------------------------------------
# Miri exec mode: explicit operation lists, digest compared with native


def export_lists(prop, seed, count, max_ops, max_variants, tag, only=None, variants=None, pars=None, max_blocks=None):
    out = os.path.join(BUILD, "tmp", f"exp-{prop}-{tag}")
    if os.path.isdir(out):
        for f in os.listdir(out):
            os.remove(os.path.join(out, f))
    fams = only or CHEAP
    cmd = [NATIVE, "export", "--prop", prop, "--seed", str(seed), "--count", str(count), "--families", ",".join(fams),
           "--variants", ",".join(variants or MIRI_VARIANTS), "--max-ops", str(max_ops), "--max-variants", str(max_variants), "--out", out]
    if pars:
        cmd += ["--pars", ",".join(str(x) for x in pars)]
    if max_blocks:
        cmd += ["--max-blocks", str(max_blocks)]
    p = subprocess.run(cmd, capture_output=True, text=True)
    if p.returncode != 0:
        raise RuntimeError("export failed: " + p.stderr[-400:])
    files = sorted(os.path.join(out, f) for f in os.listdir(out) if f.endswith(".json"))
    return files


def exec_one(target, path, grant=False, timeout=1500):
    txt = open(path).read()
    j = json.loads(txt)
    args = ["exec"] + (["--grant"] if grant else []) + [os.path.basename(path), txt]
    rc, out, err, wall = run_miri(target, "", args, timeout)
    res = {"file": path, "target": target, "grant": grant, "rc": rc, "wall": wall, "ops": len(j["ops"]), "native": j["meta"]["native_h_portable"],
           "native_violation": j["meta"].get("native_violation")}
    last, last_route, last_idx = "none", 0, None
    for m in re.finditer(r"^@op (\S+) (\S+)(?: route_len=(\d+))?", out, re.M):
        last = m.group(2)
        last_route = int(m.group(3) or 0)
        if m.group(1).isdigit():
            last_idx = int(m.group(1))
    res["last_op"] = last
    res["last_op_index"] = last_idx
    res["last_route_len"] = last_route
    m = re.search(r"^RESULT \S+ ok h_portable=([0-9a-f]+) steps=(\d+) calls=(\d+)", out, re.M)
    if m:
        res.update(status="ok", digest=m.group(1), steps=int(m.group(2)), calls=int(m.group(3)))
        return res
    m = re.search(r"^RESULT \S+ violation (\S+) (.*)$", out, re.M)
    if m:
        res.update(status="violation", prop=m.group(1), detail=json.loads(m.group(2)))
        return res
    kind, line = classify_miri_error(err)
    res.update(status=kind if kind != "none" else "other", error=line, stderr_tail=err[-3000:])
    if err == "TIMEOUT":
        res.update(status="timeout")
    return res


def same_failure(r, want_status, want_prop=None):
    st = r.get("status")
    if want_status == "mismatch":
        return st == "ok" and r.get("digest") != r.get("native")
    if st != want_status:
        return False
    if st == "violation" and want_prop:
        return r["detail"]["property"] == want_prop
    return True


def minimise_exec(r, want_status, want_prop=None, max_rounds=6):
    """Greedy one-operation-at-a-time removal, candidates of a round interpreted in parallel.
    Digest mismatches are not minimised (the native digest of a shortened list is unknown here)."""
    if want_status == "mismatch":
        return None
    cur = json.load(open(r["file"]))
    tmpdir = os.path.join(BUILD, "tmp", "miri-min")
    os.makedirs(tmpdir, exist_ok=True)
    before = len(cur["ops"])
    t_start = time.time()
    budget = 240  # seconds: the interpreter is slow; a shorter list is a convenience, the full one replays as well
    # operations after the one the failure was reported in cannot matter: cut there first (one confirming run)
    step = (r.get("detail") or {}).get("step") if isinstance(r.get("detail"), dict) else None
    if step is None:
        step = r.get("last_op_index")
    if isinstance(step, int) and 0 <= step < len(cur["ops"]) - 1:
        c = dict(cur)
        c["ops"] = cur["ops"][: step + 1]
        p = os.path.join(tmpdir, f"cand-{os.getpid()}-cut.json")
        json.dump(c, open(p, "w"))
        if same_failure(exec_one(r["target"], p, grant=r.get("grant", False)), want_status, want_prop):
            cur = c
        try:
            os.remove(p)
        except OSError:
            pass
    for rnd in range(max_rounds):
        n = len(cur["ops"])
        if n <= 1 or time.time() - t_start > budget:
            break
        cands = []
        for i in range(n):
            c = dict(cur)
            c["ops"] = cur["ops"][:i] + cur["ops"][i + 1:]
            p = os.path.join(tmpdir, f"cand-{os.getpid()}-{rnd}-{i}.json")
            json.dump(c, open(p, "w"))
            cands.append((i, p))
        with ThreadPoolExecutor(max_workers=16) as ex:
            res = list(ex.map(lambda ip: (ip[0], exec_one(r["target"], ip[1], grant=r.get("grant", False))), cands))
        removable = [i for i, x in res if same_failure(x, want_status, want_prop)]
        for _, p in cands:
            try:
                os.remove(p)
            except OSError:
                pass
        if not removable:
            break
        # drop the removable operations from the back, keeping the first one that alone suffices plus any that
        # are independent of it is not known: remove one per round (the last removable), then re-test
        i = removable[-1]
        cur["ops"] = cur["ops"][:i] + cur["ops"][i + 1:]
    cur.setdefault("meta", {})["minimised"] = {"ops_before": before, "ops_after": len(cur["ops"]), "method": "greedy single-operation removal under the interpreter"}
    return cur


def miri_exec_engine(prop, tier, seed):
    quick = tier == "quick"
    nlists = 8 if quick else 64
    targets = ["x86_64", "i686", "aarch64", "x86_64-ni", "i686-ni", "s390x", "powerpc"]
    # quick tier: random lists stay below 26 blocks per call (the deterministic grids carry the long batches)
    mb = 26 if quick else None
    files = export_lists(prop, seed, nlists, 10 if quick else 16, 3, "exec", max_blocks=mb)
    # aarch64: AES lists with detection granted (ARMv8-CE path, five intrinsics modelled) and denied (fixslice64 through
    # the aarch64 autodetect wrapper); Kuznyechik NEON in lists of its own (table start-up cost)
    # (batch lengths are drawn around the parallel widths of the aarch64 backends: ARMv8-CE 21/19/17, NEON 8)
    a64_aes = export_lists(prop, seed + 1, 3 if quick else 24, 8 if quick else 14, 3, "a64aes", only=["aes128", "aes192", "aes256"],
                           variants=["aes_auto", "aes_auto_z", "aes_autoc_z", "aes_soft", "aes_alt_z"], pars=[21, 19, 17], max_blocks=mb)
    a64_kuz = export_lists(prop, seed + 2, 2 if quick else 12, 6 if quick else 10, 2, "a64kuz", only=["kuznyechik"], variants=["kuz", "kuz_z", "kuz_compact_z"], pars=[8], max_blocks=mb)
    # deterministic batch-shape grids for the backends that exist only on aarch64 (both directions, in place and
    # disjoint buffers, n = par, par+1, 2par+1 for ARMv8-CE 21/19/17 and NEON 8): C04/C03 only, one list per family
    a64_grid = []
    if prop in ("C04", "C03"):
        gdir = os.path.join(BUILD, "tmp", f"exp-{prop}-a64grid")
        os.makedirs(gdir, exist_ok=True)
        for fam, var, par in (("aes128", "aes_auto_z", 21), ("aes192", "aes_auto", 19), ("aes256", "aes_autoc_z", 17), ("kuznyechik", "kuz_z", 8)):
            for d in ("enc", "dec"):
                # one list per direction: the interpreter runs them in parallel
                outp = os.path.join(gdir, f"{prop}-grid-{fam}-{d}.json")
                pr = subprocess.run([NATIVE, "export-target-grid", "--prop", prop, "--seed", str(seed), "--family", fam, "--variant", var, "--par", str(par), "--dir", d, "--out", outp] + (["--compact"] if quick else []),
                                    capture_output=True, text=True)
                if pr.returncode != 0:
                    raise RuntimeError("export-target-grid failed: " + pr.stderr[-300:])
                a64_grid.append(outp)
    # C12: a deterministic route grid (every role by every route, each used once) for the union code of the AES
    # autodetect wrapper on each arm the interpreter can reach, and for Kuznyechik's halves
    route_jobs = []
    if prop == "C12":
        gdir = os.path.join(BUILD, "tmp", f"exp-{prop}-routes")
        os.makedirs(gdir, exist_ok=True)
        sizes = ["aes128", "aes192", "aes256"]
        rot = seed % 3
        plan_r = [(sizes[rot], "aes_auto_z", "x86_64", False), (sizes[(rot + 1) % 3], "aes_auto", "x86_64-ni", True),
                  (sizes[(rot + 2) % 3], "aes_autoc_z", "aarch64", True), ("kuznyechik", "kuz_compact_z", "i686", False)]
        if not quick:
            plan_r += [(s, v, t, g) for s in sizes for (v, t, g) in (("aes_auto_z", "x86_64", False), ("aes_auto_z", "x86_64-ni", True), ("aes_auto_z", "aarch64", True), ("aes_auto", "aarch64", False), ("aes_soft_z", "i686", False))]
            plan_r += [("kuznyechik", "kuz_z", "aarch64", True), ("kuznyechik", "kuz_z", "x86_64", False)]
        for k, (fam, var, tgt, grant) in enumerate(plan_r):
            outp = os.path.join(gdir, f"{prop}-routes-{k}-{fam}.json")
            pr = subprocess.run([NATIVE, "export-target-grid", "--routes", "--prop", prop, "--seed", str(seed + k), "--family", fam, "--variant", var, "--par", "1", "--out", outp],
                                capture_output=True, text=True)
            if pr.returncode != 0:
                raise RuntimeError("export-target-grid --routes failed: " + pr.stderr[-300:])
            route_jobs.append((tgt, outp, grant))
    # family sweep (C03, C04): one short history per crate on the 32-bit target (pointer-width assumptions, the
    # unmodified fixslice32) and under the x86_64 interpreter (bounds / aliasing in every crate); thorough: every family
    sweep_jobs = []
    if prop in ("C03", "C04"):
        gdir = os.path.join(BUILD, "tmp", f"exp-{prop}-sweep")
        os.makedirs(gdir, exist_ok=True)
        fams_out = subprocess.run([NATIVE, "families"], capture_output=True, text=True).stdout.split("\n")
        fam_crate = [(ln.split()[0], ln.split()[1]) for ln in fams_out if ln.strip()]
        fam_vars = {ln.split()[0]: ln.split("variants=")[1].split(",") for ln in fams_out if "variants=" in ln}
        seen, sweep = set(), []
        for f, c in fam_crate:
            if quick and c in seen:
                continue
            seen.add(c)
            if f in ("blowfish", "blowfish_le", "threefish1024") and quick:
                # key set-up too slow for the quick tier under the interpreter; covered in the thorough tier
                if f != "blowfish":
                    continue
            sweep.append(f)
        for f in sweep:
            # first list: the default build and the last variant; further lists: the remaining build variants in
            # pairs (every cfg arm of the crate meets the 32-bit and the big-endian target)
            vs = fam_vars.get(f, [])
            rest = [v for v in vs[1:-1]]
            chunks = ["-"] + [",".join(rest[i:i + 2]) for i in range(0, len(rest), 2)]
            for ci, ch in enumerate(chunks):
                outp = os.path.join(gdir, f"{prop}-sweep-{f}-{ci}.json")
                pr = subprocess.run([NATIVE, "export-target-grid", "--sweep", "--prop", prop, "--seed", str(seed), "--family", f, "--variant", ch, "--par", "1", "--out", outp], capture_output=True, text=True)
                if pr.returncode != 0:
                    raise RuntimeError("export-target-grid --sweep failed: " + pr.stderr[-300:])
                sweep_jobs.append(("i686", outp, False))
                if ci == 0 or not quick or f == "kuznyechik":
                    sweep_jobs.append(("s390x", outp, False))
                if not quick or len(chunks) > 1:
                    # quick: only the crates whose backends are selected by cfg (aes, kuznyechik, serpent, threefish)
                    sweep_jobs.append(("powerpc", outp, False))
                if not quick and ci == 0:
                    sweep_jobs.append(("x86_64", outp, False))
    jobs = [(t, f, False) for t in ("x86_64", "i686") for f in files]
    jobs += route_jobs
    jobs += sweep_jobs
    jobs += [("aarch64", f, True) for f in a64_grid]
    jobs += [("aarch64", f, True) for f in a64_aes] + [("aarch64", f, False) for f in a64_aes[: (1 if quick else 8)]]
    jobs += [("aarch64", f, True) for f in a64_kuz]
    # the AES-NI arm itself under the interpreter (x86_64 and 32-bit x86, detection granted): same AES lists
    jobs += [("x86_64-ni", f, True) for f in a64_aes]
    jobs += [("i686-ni", f, True) for f in a64_aes[: (2 if quick else 12)]]
    t0 = time.time()
    with ThreadPoolExecutor(max_workers=16) as ex:
        results = list(ex.map(lambda tf: exec_one(tf[0], tf[1], grant=tf[2]), jobs))
    cov = {"mode": "exec (single-threaded, explicit operation lists exported by the native engine; digest compared with native)",
           "targets": {t: TARGETS[t] for t in targets}, "lists": len(files), "executions": len(results),
           "ops_executed": sum(r.get("steps", 0) for r in results), "cipher_calls": sum(r.get("calls", 0) for r in results),
           "digest_matches_native": sum(1 for r in results if r.get("status") == "ok" and r.get("digest") == r["native"]),
           "wall_s": round(time.time() - t0, 1),
           "what_is_real": "all of /repo that the simulated target compiles (i686: fixslice32 unmodified; x86_64: autodetect soft arm, Kuznyechik compact_soft; x86_64-ni: the AES-NI arm with detection granted and _mm_aeskeygenassist_si128 redirected to the model; aarch64: aes/src/armv8* and kuznyechik/src/neon/* with exactly five intrinsics redirected to sim/models/verif_neon_model.rs, everything else unmodified). stub: CPUID/hwcap (the simulator decides: 'no AES' as upstream does under Miri, or granted on aarch64), five aarch64 intrinsics",
           "aarch64_detection_granted_runs": sum(1 for r in results if r["target"] == "aarch64" and r.get("grant")),
           "per_target_ok": {t: sum(1 for r in results if r["target"] == t and r.get("status") == "ok") for t in targets},
           "slowest_jobs": [f"{os.path.basename(r['file'])}@{r['target']}: {r['wall']:.0f}s" for r in sorted(results, key=lambda r: -r["wall"])[:5]]}
    viols, notes, herr = [], [], []
    for r in results:
        st = r.get("status")
        base = os.path.basename(r["file"]).replace(".json", "")
        if st == "ok":
            if r["digest"] != r["native"] and not r.get("native_violation"):
                sig = f"C03/cross-target/{r['target']}"
                rp = write_replay(f"{base}-{r['target']}.miri.json", {"format": "block-ciphers-sim-replay/1", "property": "C03", "engine": "miri",
                                  "mode": "exec", "target": r["target"], "grant": r.get("grant", False), "miriflags": "", "list": json.load(open(r["file"])),
                                  "violation": {"property": "C03", "class": "cross-target", "detail": f"history digest under Miri {r['target']} is {r['digest']}, natively {r['native']}"}})
                (viols if prop == "C03" else notes).append(("C03", sig, rp, f"history digest differs between native x86-64 and Miri {r['target']}"))
        elif st == "violation":
            d = r["detail"]
            if prop in (d.get("also_violates") or []):
                # the same observation contradicts this property too (the native engine attributes the same way)
                d = dict(d, property=prop, reported_as=d["property"])
            sig = f"{d['property']}/{d['class']}/{d['family']}/{d['variant']}"
            small = minimise_exec(r, "violation", d.get("reported_as", d["property"])) if (d["property"] == prop and len(viols) < 2) else None
            rp = write_replay(f"{base}-{r['target']}.miri.json", {"format": "block-ciphers-sim-replay/1", "property": d["property"], "engine": "miri",
                              "mode": "exec", "target": r["target"], "grant": r.get("grant", False), "miriflags": "", "list": small or json.load(open(r["file"])), "violation": d})
            (viols if d["property"] == prop else notes).append((d["property"], sig, rp, d["detail"]))
        elif st in ("ub", "race", "deadlock"):
            p = attribute_ub(r.get("stderr_tail", ""), r.get("last_op"))
            concerns = {p}
            if r.get("last_op") in ("call", "repeat") and r.get("last_route_len", 0) > 1:
                # undefined behaviour inside a call on an instance that came out of a clone / conversion: the
                # instance itself is suspect, so the finding concerns C12 as much as the call discipline
                concerns.add("C12")
            if prop in concerns:
                p = prop
            sig = f"{p}/miri-{st}/{r['target']}"
            small = minimise_exec(r, st) if (p == prop and len(viols) < 2) else None
            rp = write_replay(f"{base}-{r['target']}.miri.json", {"format": "block-ciphers-sim-replay/1", "property": p, "engine": "miri",
                              "mode": "exec", "target": r["target"], "grant": r.get("grant", False), "miriflags": "", "list": small or json.load(open(r["file"])),
                              "violation": {"property": p, "class": "miri-" + st, "detail": r.get("error"), "last_op": r.get("last_op"), "stderr_tail": r.get("stderr_tail", "")[-1500:]}})
            (viols if p == prop else notes).append((p, sig, rp, r.get("error", "")))
        else:
            herr.append(f"miri exec {r['target']} {base}: {st} {r.get('error', '')} {r.get('stderr_tail', '')[-300:]}")
    return cov, viols, notes, herr


# ---------------------------------------------------------------------------
# Miri threads mode


def threads_one(target, wl_seed, nthreads, nops, mode, fams, miri_seeds, rate, grant=False, timeout=1700, variants="-"):
    flags = f"-Zmiri-many-seeds={miri_seeds[0]}..{miri_seeds[1]} -Zmiri-preemption-rate={rate}"
    args = ["threads", str(wl_seed), str(nthreads), str(nops), mode, ",".join(fams), "grant" if grant else "-", variants]
    rc, out, err, wall = run_miri(target, flags, args, timeout)
    hist = re.findall(r"^HISTORY events=(\d+) overlapping_pairs=(\d+) order_digest=([0-9a-f]+) detect_calls=(\d+) cache_misses=(\d+)", out, re.M)
    res = {"target": target, "workload_seed": wl_seed, "threads": nthreads, "ops": nops, "mode": mode, "families": fams, "miri_seeds": list(miri_seeds),
           "rate": rate, "rc": rc, "wall": wall, "executions": len(hist), "events": sum(int(h[0]) for h in hist),
           "overlaps": sum(int(h[1]) for h in hist), "orders": sorted(set(h[2] for h in hist)),
           "first_use_raced": sum(1 for h in hist if int(h[4]) >= 2), "flags": flags, "args": args}
    if rc == 0 and len(hist) == miri_seeds[1] - miri_seeds[0]:
        res["status"] = "ok"
        return res
    m = re.search(r"^RESULT violation (\S+) (.*)$", out, re.M)
    if m:
        res.update(status="violation", prop=m.group(1), detail=m.group(2))
    else:
        kind, line = classify_miri_error(err)
        res.update(status=("timeout" if err == "TIMEOUT" else kind), error=line, stderr_tail=err[-3000:])
    # which scheduler seed failed?  re-run candidates one by one to pin it
    fs = re.findall(r"Trying seed: (\d+)", err)
    res["seeds_tried"] = fs
    return res


def miri_threads_engine(prop, tier, seed):
    quick = tier == "quick"
    nwl = 8 if quick else 32
    per = 4 if quick else 8
    import random
    r = random.Random(seed)  # python's Mersenne twister is specified; seeded -> deterministic plan
    plans = []
    # Family coverage per run: one representative of EVERY crate always gets a shared combined instance (five
    # workloads of four), the remaining families rotate through the other slots (seed-dependent), Kuznyechik's
    # default build has workloads of its own (~10 s of interpreter start-up for its tables).
    fams_out = subprocess.run([NATIVE, "families"], capture_output=True, text=True).stdout.split("\n")
    fam_crate = [(ln.split()[0], ln.split()[1]) for ln in fams_out if ln.strip()]
    reps, seen = [], set()
    for f, c in fam_crate:
        if c not in seen and c != "kuznyechik":
            seen.add(c)
            reps.append(f)
    others = [f for f, c in fam_crate if f not in reps and c != "kuznyechik"]
    rot = seed % max(1, len(others))
    others = others[rot:] + others[:rot]
    nxt = 0

    def take(k):
        nonlocal nxt
        out = [others[(nxt + j) % len(others)] for j in range(k)]
        nxt += k
        return out
    groups = [reps[i:i + 4] for i in range(0, len(reps), 4)]
    aes_k = 0
    for i in range(nwl):
        variants = "-"
        if i % 4 == 1:
            fams = ["kuznyechik"] + take(2)
            # SSE2 backend and, alternating, the table-driven soft backend (zeroize on one of them each time)
            variants = "kuz,kuz_soft_z" if (i // 4) % 2 == 0 else "kuz_z,kuz_soft"
        elif groups:
            fams = groups.pop(0)
            if len(fams) < 4:
                fams = fams + take(4 - len(fams))
        else:
            fams = take(4)
        if i % 2 == 0 and not any(f.startswith("aes") for f in fams):
            # first-use workloads race the detection cache: they need a type that goes through it
            fams.append(["aes128", "aes192", "aes256"][(i // 2) % 3])
        if variants == "-" and any(f.startswith("aes") for f in fams):
            # the twelve AES build variants rotate through the workloads three at a time, so that every one of them
            # (each is different code behind &self: union arms, feature-gated fields) is shared between threads
            av = [v for v in MIRI_VARIANTS if v.startswith("aes_")]
            variants = ",".join(av[(3 * aes_k + seed + j) % len(av)] for j in range(3))
            aes_k += 1
        plans.append(dict(wl_seed=seed * 1000 + i, nthreads=r.choice([2, 3, 3, 4]), nops=r.choice([1, 2]),
                          mode="firstuse" if i % 2 == 0 else "shared", fams=fams, miri_seeds=(i * per, i * per + per),
                          rate=r.choice([0.001, 0.003, 0.01, 0.03, 0.1]), variants=variants))
    for p in plans:
        p["target"], p["grant"] = "x86_64", False
    # the AES-NI arm under preemptive threads (x86_64, detection granted, one intrinsic modelled)
    for j in range(2 if quick else 12):
        plans.append(dict(wl_seed=seed * 1000 + 700 + j, nthreads=r.choice([3, 4]), nops=r.choice([2, 3]), mode="firstuse" if j % 2 == 0 else "shared",
                          fams=[["aes128", "aes192", "aes256"][j % 3], ["aes256", "aes128", "aes192"][j % 3]], miri_seeds=(700 + j * per, 700 + j * per + per),
                          rate=r.choice([0.003, 0.01, 0.03]), variants="aes_auto,aes_auto_z,aes_autoc_z", target="x86_64-ni", grant=True))
    # coldfirst workloads: the main thread touches nothing of the listed families (no shared instance, the model is
    # evaluated after the join); every worker constructs and uses every listed family once, in its own order
    cold_fams = [f for f in reps] if quick else [f for f, c in fam_crate if c != "kuznyechik"]
    crot = (seed * 5) % max(1, len(cold_fams))
    cold_fams = cold_fams[crot:] + cold_fams[:crot]
    gsz = 9 if quick else 8
    for j in range(0, len(cold_fams), gsz):
        plans.append(dict(wl_seed=seed * 1000 + 400 + j, nthreads=3, nops=1, mode="coldfirst", fams=cold_fams[j:j + gsz],
                          miri_seeds=(400 + j * 2, 400 + j * 2 + (4 if quick else 8)), rate=r.choice([0.003, 0.01, 0.03]), variants="-", target="x86_64", grant=False))
    plans.append(dict(wl_seed=seed * 1000 + 499, nthreads=3, nops=1, mode="coldfirst", fams=["kuznyechik", "aes128"],
                      miri_seeds=(499, 499 + (4 if quick else 8)), rate=0.01, variants="kuz_soft,kuz_z,aes_soft_z,aes_auto_z", target="x86_64", grant=False))
    # storm workloads: one thread pushes 48 blocks through every shared instance while the others clone / convert
    # the same instances and use the copies - eight crates per run, rotating with the seed (quick), every family (thorough)
    storm_fams = [f for f, c in fam_crate if c != "kuznyechik" and f in reps] if quick else [f for f, c in fam_crate if c != "kuznyechik"]
    srot = seed % max(1, len(storm_fams))
    storm_fams = storm_fams[srot:] + storm_fams[:srot]
    if quick:
        # the shuttle engine carries this workload shape for every family at native speed; the interpreter adds
        # data-race detection for non-atomic state on a rotating sample of eight crates per run
        storm_fams = storm_fams[:8]
    for j in range(0, len(storm_fams), 4):
        plans.append(dict(wl_seed=seed * 1000 + 300 + j, nthreads=r.choice([3, 4]), nops=r.choice([1, 2]), mode="storm", fams=storm_fams[j:j + 4],
                          miri_seeds=(300 + j * 2, 300 + j * 2 + (2 if quick else 6)), rate=r.choice([0.001, 0.003, 0.01]), variants="-", target="x86_64", grant=False))
    if not quick:
        # thorough: the ARMv8-CE arm (detection granted, five intrinsics modelled) and the aarch64 soft arm under threads
        for j in range(8):
            plans.append(dict(wl_seed=seed * 1000 + 500 + j, nthreads=3, nops=2, mode="firstuse" if j % 2 == 0 else "shared",
                              fams=[["aes128", "aes192", "aes256"][j % 3]] + take(1), miri_seeds=(900 + j * 4, 904 + j * 4),
                              rate=r.choice([0.01, 0.03]), variants="-", target="aarch64", grant=(j % 4 != 3)))
    t0 = time.time()
    with ThreadPoolExecutor(max_workers=max(1, 16 // per)) as ex:
        results = list(ex.map(lambda p: threads_one(p["target"], p["wl_seed"], p["nthreads"], p["nops"], p["mode"], p["fams"], p["miri_seeds"], p["rate"], grant=p["grant"], variants=p["variants"]), plans))
    orders = set()
    for x in results:
        orders.update(x["orders"])
    cov = {"mode": "threads (real std threads share instances, construct/clone/convert concurrently; Miri's seeded scheduler pre-empts inside cipher code; data-race, aliasing and bounds detection on)",
           "targets": sorted(set(TARGETS[p["target"]] for p in plans)), "workloads": len(plans), "executions": sum(x["executions"] for x in results),
           "recorded_events": sum(x["events"] for x in results), "overlapping_invocation_pairs": sum(x["overlaps"] for x in results),
           "distinct_invocation_orders": len(orders), "first_use_race_executions": sum(x["first_use_raced"] for x in results),
           "preemption_rates": sorted(set(p["rate"] for p in plans)), "wall_s": round(time.time() - t0, 1)}
    viols, notes, herr = [], [], []
    for x in results:
        if x["status"] == "ok":
            continue
        name = f"C15-threads-{x['workload_seed']}.miri.json"
        if x["status"] in ("violation", "ub", "race", "deadlock"):
            cls = "thread-response" if x["status"] == "violation" else "miri-" + x["status"]
            detail = x.get("detail") or x.get("error")
            rp = write_replay(name, {"format": "block-ciphers-sim-replay/1", "property": "C15", "engine": "miri", "mode": "threads",
                                     "target": x["target"], "miriflags": x["flags"], "argv": x["args"],
                                     "violation": {"property": "C15", "class": cls, "detail": detail, "stderr_tail": x.get("stderr_tail", "")[-1500:]}})
            (viols if prop == "C15" else notes).append(("C15", f"C15/{cls}", rp, detail))
        else:
            herr.append(f"miri threads wl {x['workload_seed']}: {x['status']} {x.get('error', '')} {x.get('stderr_tail', '')[-300:]}")
    return cov, viols, notes, herr


# ---------------------------------------------------------------------------
# shuttle


def shuttle_engine(prop, tier, seed):
    quick = tier == "quick"
    iters = 3000 if quick else 300000
    runs = []
    t0 = time.time()
    wl_iters = 40000 if quick else 3000000
    for scen, sched, n in (("cache", "random", iters), ("cache", "pct", iters), ("wl", "random", wl_iters), ("wl", "pct", wl_iters)):
        p = subprocess.run([SHUTTLE, "run", "--seed", str(seed), "--iters", str(n), "--sched", sched, "--replay-dir", REPLAYS] + (["--scenario", "wl"] if scen == "wl" else []),
                           capture_output=True, text=True, timeout=6000)
        st = re.search(r"^STATS (.*)$", p.stdout, re.M)
        stats = dict(kv.split("=") for kv in st.group(1).split()) if st else {}
        runs.append((scen + "-" + sched, p.returncode, p.stdout, p.stderr, {k: int(v) for k, v in stats.items()}))
    try:
        instr = json.load(open(os.path.join(BUILD, "shuttle-instrumented.json")))
    except (OSError, ValueError):
        instr = []
    cov = {"mode": "shuttle (native, hardware arm live): detection caches use shuttle atomics; Random and PCT(depth 3) schedulers; scenario 'cache': AES first use, oracle = forced-soft build; scenario 'wl': shared instances of every family and build variant, calls / clones / conversions / constructions from 2-4 threads, one thread driving 48 blocks through every shared instance in half of the executions, oracle = fresh instance per block",
           "crates_built_from_instrumented_source": instr,
           "instrumentation": "every core::sync / std::sync primitive in a crate's source becomes shuttle's (a scheduling point); the unchanged tree uses none outside cpufeatures",
           "schedules_explored": sum(r[4].get("executions", 0) for r in runs), "per_scheduler": {r[0]: r[4] for r in runs},
           "first_use_raced_executions": sum(r[4].get("first_use_raced", 0) for r in runs), "wall_s": round(time.time() - t0, 1),
           "limit": "scheduling points exist only at the cache atomics and thread operations; shuttle treats Relaxed as SeqCst (Miri covers weak-memory behaviours)"}
    viols, notes, herr = [], [], []
    for sched, rc, out, err, stats in runs:
        if rc == 0:
            continue
        m = re.search(r"^RESULT violation schedule=(\S*) message=(.*)$", out, re.M)
        if m and m.group(1):
            rp = write_replay(f"C15-shuttle-{seed}-{sched}.json", {"format": "block-ciphers-sim-replay/1", "property": "C15", "engine": "shuttle",
                              "schedule_file": m.group(1), "scheduler": sched, "seed": seed, "scenario": "wl" if sched.startswith("wl") else "cache",
                              "violation": {"property": "C15", "class": "shuttle-schedule", "detail": m.group(2)[:1500]}})
            if "HARNESS" in m.group(2):
                herr.append("shuttle: " + m.group(2)[:300])
            else:
                (viols if prop == "C15" else notes).append(("C15", "C15/shuttle-schedule", rp, m.group(2)[:400]))
        else:
            herr.append(f"shuttle {sched}: rc={rc} {out[-300:]} {err[-300:]}")
    return cov, viols, notes, herr


# ---------------------------------------------------------------------------



# ---------------------------------------------------------------------------
# C14 under the interpreter: the eksblowfish reference model against the real code as other machines see it


def c14_pi_hex():
    return open(os.environ.get("VERIF_PI", os.path.join(BUILD, "pi_hex.txt"))).read().strip()[: 8 * (18 + 1024)]


def c14_one(target, path):
    rc, out, err, wall = run_miri(target, "", ["c14", c14_pi_hex(), os.path.basename(path), open(path).read()], 1700)
    r = {"file": path, "target": target, "wall": wall, "rc": rc}
    m = re.search(r"^@c14 \S+ (\{.*\})$", out, re.M)
    kind, line = classify_miri_error(err)
    if m:
        r.update(json.loads(m.group(1)))
    elif kind in ("ub", "race", "deadlock"):
        r.update({"status": kind, "error": line, "stderr_tail": err[-1500:]})
    else:
        r.update({"status": "other", "error": line, "stderr_tail": err[-600:]})
    return r


def miri_c14_engine(prop, tier, seed):
    quick = tier == "quick"
    gdir = os.path.join(BUILD, "tmp", "exp-C14")
    if os.path.isdir(gdir):
        for f in os.listdir(gdir):
            os.remove(os.path.join(gdir, f))
    n = 12 if quick else 96
    pr = subprocess.run([NATIVE, "c14-export", "--seed", str(seed), "--count", str(n), "--max-ops", "8" if quick else "14", "--out", gdir], capture_output=True, text=True)
    if pr.returncode != 0:
        raise RuntimeError("c14-export failed: " + pr.stderr[-300:])
    files = sorted(os.path.join(gdir, f) for f in os.listdir(gdir))
    # big-endian 64- and 32-bit, little-endian 32-bit (the native engine is the little-endian 64-bit machine)
    tg = ["s390x", "powerpc", "i686"]
    jobs = [(t, f) for k, f in enumerate(files) for t in (tg if not quick else [tg[k % 2], "i686"][: 1 + (k % 3 == 0)])]
    t0 = time.time()
    with ThreadPoolExecutor(max_workers=16) as ex:
        results = list(ex.map(lambda tf: c14_one(tf[0], tf[1]), jobs))
    cov = {"mode": "c14 (the native engine's history generator and pi-derived reference model, interpreted on other machines)",
           "targets": {t: TARGETS[t] for t in tg}, "lists": len(files), "executions": len(results),
           "ops_executed": sum(r.get("ops", 0) for r in results), "probes": sum(r.get("probes", 0) for r in results),
           "per_target_ok": {t: sum(1 for r in results if r["target"] == t and r.get("status") == "ok") for t in tg},
           "wall_s": round(time.time() - t0, 1)}
    viols, notes, herr = [], [], []
    for r in results:
        base = os.path.basename(r["file"]).replace(".json", "")
        st = r.get("status")
        if st == "ok":
            continue
        if st in ("violation", "ub"):
            cls = r.get("class", "miri-ub")
            rp = write_replay(f"{base}-{r['target']}.miri.json", {"format": "block-ciphers-sim-replay/1", "property": "C14", "engine": "miri", "mode": "c14",
                              "target": r["target"], "list": json.load(open(r["file"])),
                              "violation": {"property": "C14", "class": cls, "step": r.get("step"), "detail": r.get("detail") or r.get("error"), "stderr_tail": r.get("stderr_tail", "")}})
            viols.append(("C14", f"C14/{cls}/{r['target']}", rp, r.get("detail") or r.get("error")))
        else:
            herr.append(f"miri c14 {r['target']} {base}: {st} {r.get('error', '')} {r.get('stderr_tail', '')[-300:]}")
    return cov, viols, notes, herr


# ---------------------------------------------------------------------------
# cross-build: the same seeded runs in the default build and in the target-feature build of the simulator


def _digest_lists(binp, d, offset, stride, label):
    e = env_offline()
    e["VERIF_BUILD_LABEL"] = label
    p = subprocess.run([binp, "digest-lists", d, "--offset", str(offset), "--stride", str(stride)], capture_output=True, text=True, env=e)
    if p.returncode != 0:
        raise RuntimeError(f"digest-lists failed in {binp}: rc={p.returncode} {p.stderr[-300:]}")
    out = {}
    for ln in p.stdout.splitlines():
        f = ln.split()
        if len(f) >= 4 and f[0].endswith(".json"):
            out[f[0]] = tuple(f[1:4])  # portable digest (every output byte of every operation), steps, outcome
    return out


def cross_build_engine(prop, tier, seed):
    """The same explicit operation lists executed by the default build and by the target-feature build.
    (Explicit lists, not seeds: the generator looks at the live instance's parallel width, which may legitimately
    differ between builds, so seeded runs of the two builds are not comparable operation by operation.)"""
    tfb = os.environ.get("VERIF_BIN_TF", "")
    if not tfb or not os.path.isfile(tfb):
        return {"present": False, "why": "no target-feature build on this host"}, [], [], []
    n = 4000 if tier == "quick" else 40000
    d = os.path.join(BUILD, "tmp", f"xb-{prop}")
    if os.path.isdir(d):
        for f in os.listdir(d):
            os.remove(os.path.join(d, f))
    t0 = time.time()
    chunks = 16

    def exp(k):
        per = n // chunks
        return subprocess.run([NATIVE, "export", "--prop", prop, "--seed", str(seed ^ 0x7F), "--from", str(k * per), "--count", str(per), "--out", d], capture_output=True, text=True)
    with ThreadPoolExecutor(max_workers=16) as ex:
        for pr in ex.map(exp, range(chunks)):
            if pr.returncode != 0:
                raise RuntimeError("export failed: " + pr.stderr[-300:])
    with ThreadPoolExecutor(max_workers=16) as ex:
        a = list(ex.map(lambda k: _digest_lists(NATIVE, d, k, chunks, ""), range(chunks)))
        b = list(ex.map(lambda k: _digest_lists(tfb, d, k, chunks, "tf"), range(chunks)))
    da, db = {}, {}
    for x in a:
        da.update(x)
    for x in b:
        db.update(x)
    diff = sorted(i for i in da if db.get(i) != da[i])
    feats = ""
    try:
        feats = open(os.path.join(os.path.dirname(os.path.dirname(tfb)), "features.txt")).read().strip()
    except OSError:
        pass
    cov = {"present": True, "mode": "explicit operation lists (exported from this property's seeded workload) executed by both builds of the simulator; per-list portable digests (every output byte of every operation), step counts and outcomes compared",
           "target_features_enabled_at_compile_time": feats, "lists_compared": len(da), "lists_differing": len(diff), "wall_s": round(time.time() - t0, 1)}
    viols, notes = [], []
    if diff:
        i = diff[0]
        rp = write_replay(f"{prop}-cross-build-{seed}.json", {"format": "block-ciphers-sim-replay/1", "property": "C03", "engine": "cross-build", "list": json.load(open(os.path.join(d, i))),
                          "violation": {"property": "C03", "class": "cross-build", "detail": f"operation list {i} of the {prop} workload: default build {da[i]}, target-feature build ({feats}) {db.get(i)}; {len(diff)} of {len(da)} lists differ"}})
        (viols if prop == "C03" else notes).append(("C03", "C03/cross-build", rp, f"list {i} gives other bytes in the build with target features {feats} enabled at compile time ({len(diff)} of {len(da)} lists differ)"))
    for f in os.listdir(d):
        os.remove(os.path.join(d, f))
    return cov, viols, notes, []


# ---------------------------------------------------------------------------
# C16 under the interpreter: types that exist only on other machines (ARMv8-CE AES, NEON Kuznyechik), other layouts


def c16_with_prefix(target, grant, ty):
    """A type whose image has uninitialised storage (a union's inactive tail): one probe run reads a fresh instance
    chunk by chunk and reports progress until the interpreter stops; the route cases then run on that prefix."""
    rc, out, err, wall = run_miri(target, "", ["c16"] + (["--grant"] if grant else []) + ["--probe", ty], 600)
    size = int(out.split("size=")[1].split()[0]) if "size=" in out else 0
    offs = [int(x) for x in re.findall(r"^@c16-readable (\d+)$", out, re.M)]
    lo = max(offs) if offs else 0
    kind, line = classify_miri_error(err)
    if lo == 0 or (rc != 0 and not (kind == "ub" and "uninitialized" in line.lower())):
        return {"target": target, "grant": grant, "types": [ty], "wall": wall, "rc": 0, "ok": 0, "residue": [], "skipped": ty + " (no readable prefix)", "error": None if lo == 0 and kind == "ub" else ("other", line, ty, err[-300:]) if rc != 0 and kind != "ub" else None}
    r = c16_one(target, grant, [ty], limit=lo)
    r["prefix"] = (ty, lo, size)
    return r


def c16_one(target, grant, types, limit=None):
    args = ["c16"] + (["--grant"] if grant else []) + (["--limit", str(limit)] if limit else []) + types
    rc, out, err, wall = run_miri(target, "", args, 1700)
    r = {"target": target, "grant": grant, "types": types, "wall": wall, "rc": rc, "ok": 0, "residue": [], "skipped": None, "error": None}
    last_begin = None
    for ln in out.splitlines():
        if ln.startswith("@c16-begin "):
            last_begin = ln[len("@c16-begin "):]
        elif ln.startswith("@c16 "):
            if " RESIDUE " in ln:
                r["residue"].append(ln[5:])
            elif " ok " in ln:
                r["ok"] += 1
    kind, line = classify_miri_error(err)
    if kind == "ub" and "uninitialized" in line.lower():
        # a padding byte: typed writes de-initialise padding in the interpreter's model, so this layout cannot be
        # inspected byte by byte there. Not a finding.
        r["skipped"] = last_begin
    elif kind in ("ub", "race", "deadlock"):
        r["error"] = (kind, line, last_begin, err[-1500:])
    elif rc not in (0, 1) or (rc == 1 and not r["residue"]):
        r["error"] = ("other", line or err[-300:], last_begin, err[-600:])
    return r


def miri_c16_engine(prop, tier, seed):
    quick = tier == "quick"
    reg = subprocess.run([NATIVE, "registry"], capture_output=True, text=True).stdout.splitlines()
    # type names may contain spaces (generic arguments): everything before " fam="
    tname = lambda ln: ln.split(" fam=")[0].strip()
    types = [tname(ln) for ln in reg if " z=true " in ln]
    fam_of = {tname(ln): ln.split("fam=")[1].split()[0] for ln in reg if " z=true " in ln}

    def of(variant, fams=None):
        return [t for t in types if t.startswith(variant + "::") and (fams is None or fam_of[t] in fams)]
    sizes = ["aes128", "aes192", "aes256"]
    rot = seed % 3
    jobs = []
    # ARMv8-CE arm (detection granted) of the aarch64 autodetect types; the soft arm of the same wrapper; NEON Kuznyechik
    jobs.append(("aarch64", True, of("aes_auto_z", [sizes[rot]])))
    jobs.append(("aarch64", True, of("aes_autoc_z", [sizes[(rot + 1) % 3]])))
    jobs.append(("aarch64", True, of("aes_auto_z", [sizes[(rot + 2) % 3]])))
    jobs.append(("aarch64", False, of("aes_auto_z", [sizes[(rot + 1) % 3]])))
    jobs.append(("aarch64", True, of("kuz_z")))
    # the AES-NI arm as the interpreter sees it, and 32-bit / big-endian layouts of a rotating sample
    jobs.append(("x86_64-ni", True, of("aes_auto_z", [sizes[rot]])))
    cheap = [t for t in types if fam_of[t] in CHEAP and not t.startswith(("aes_auto", "kuz"))]
    if quick:
        r = (seed * 7) % max(1, len(cheap))
        sample = (cheap[r:] + cheap[:r])[:12]
        jobs.append(("i686", False, sample[:6]))
        jobs.append(("powerpc", False, sample[6:]))
    else:
        jobs += [("aarch64", True, of(v, [f])) for v in ("aes_auto_z", "aes_autoc_z") for f in sizes]
        jobs += [("aarch64", False, of("aes_autoc_z", [f])) for f in sizes]
        for tg in ("i686", "s390x", "powerpc"):
            jobs += [(tg, False, cheap[i:i + 8]) for i in range(0, len(cheap), 8)]
        jobs.append(("i686", False, of("kuz_compact_z")))
        jobs.append(("s390x", False, of("kuz_compact_z")))
    jobs = [j for j in jobs if j[2]]
    t0 = time.time()
    with ThreadPoolExecutor(max_workers=16) as ex:
        results = list(ex.map(lambda j: c16_one(*j), jobs))
    # types whose storage is only partly initialised in the interpreter's model: one by one, on their readable prefix
    retry = []
    for r in results:
        if r["skipped"]:
            for ty in r["types"]:
                retry.append((r["target"], r["grant"], ty))
            r["skipped"] = None
    if retry:
        with ThreadPoolExecutor(max_workers=16) as ex:
            results += list(ex.map(lambda j: c16_with_prefix(*j), retry))
    cov = {"mode": "c16 (construct by every route, optionally use, drop_in_place, read the storage back: every byte position at which the live images of two keys differ must be zero) interpreted for other machines",
           "targets": sorted(set(TARGETS[j[0]] for j in jobs)), "processes": len(jobs), "route_cases_ok": sum(r["ok"] for r in results),
           "types": sum(len(j[2]) for j in jobs), "not_inspectable_padding": [r["skipped"] for r in results if r["skipped"]],
           "inspected_on_initialised_prefix": [f"{r['prefix'][0]}@{r['target']}: {r['prefix'][1]} of {r['prefix'][2]} bytes" for r in results if r.get("prefix")],
           "what_is_real": "aarch64: aes/src/armv8* and kuznyechik/src/neon/* with the modelled intrinsics of the exec engine, Drop/zeroize code unmodified; stub: hwcap (granted or denied by the simulator)",
           "wall_s": round(time.time() - t0, 1)}
    viols, notes, herr = [], [], []
    for k, r in enumerate(results):
        if r["residue"]:
            rp = write_replay(f"C16-{r['target']}-{k}.miri.json", {"format": "block-ciphers-sim-replay/1", "property": "C16", "engine": "miri", "mode": "c16", "target": r["target"], "grant": r["grant"],
                              "types": r["types"], "violation": {"property": "C16", "class": "residue", "detail": r["residue"][:6]}})
            viols.append(("C16", f"C16/residue/{r['target']}/{r['residue'][0].split()[0]}", rp, "; ".join(r["residue"][:3])))
        elif r["error"] and r["error"][0] in ("ub", "race", "deadlock"):
            rp = write_replay(f"C16-{r['target']}-{k}.miri.json", {"format": "block-ciphers-sim-replay/1", "property": "C16", "engine": "miri", "mode": "c16", "target": r["target"], "grant": r["grant"],
                              "types": r["types"], "violation": {"property": "C16", "class": "miri-" + r["error"][0], "detail": r["error"][1], "during": r["error"][2], "stderr_tail": r["error"][3]}})
            viols.append(("C16", f"C16/miri-{r['error'][0]}/{r['target']}", rp, f"{r['error'][1]} during {r['error'][2]}"))
        elif r["error"]:
            herr.append(f"miri c16 {r['target']} {r['types'][:2]}: {r['error'][1]} {r['error'][3][-300:]}")
    return cov, viols, notes, herr


def post(prop, tier, seed):
    evp = os.path.join(VERIF, "evidence", f"{prop}.json")
    ev = json.load(open(evp))
    engines = []
    if prop == "C15":
        engines = [("shuttle", shuttle_engine), ("miri_threads", miri_threads_engine)]
    elif prop in ("C03", "C04", "C12"):
        engines = [("miri_exec", miri_exec_engine)]
    elif prop == "C14":
        engines = [("miri_c14", miri_c14_engine)]
    elif prop == "C16":
        engines = [("miri_c16", miri_c16_engine)]
    if os.environ.get("VERIF_NO_MIRI"):
        engines = [e for e in engines if not e[0].startswith("miri")]
    if prop in ("C03", "C04", "C12", "C15"):
        engines = [("cross_build", lambda p, t, s: cross_build_engine(p, t, s))] + engines
    all_v, all_n, all_h = [], [], []
    t0 = time.time()
    if prop in ("C14", "C16"):
        # the native engine was also run in the target-feature build (check script); fold its numbers in
        tfp = os.path.join(BUILD, "tmp", f"{prop}.tf.json")
        if os.path.isfile(tfp):
            try:
                tf = json.load(open(tfp))
                ev["coverage"]["target_feature_build"] = {"evaluations": tf["coverage"].get("evaluations"), "violations": tf.get("violations"), "wall_s": tf.get("wall_s"),
                                                          "what": "the same engine, same seed, in the simulator build with the host's SIMD target features enabled at compile time"}
                ev["violations"] = ev.get("violations", 0) + (tf.get("violations") or 0)
            except (OSError, ValueError, KeyError):
                pass
            os.remove(tfp)
    for name, fn in engines:
        try:
            cov, v, n, h = fn(prop, tier, seed)
        except Exception as ex:  # harness trouble is never a violation
            cov, v, n, h = {"error": str(ex)}, [], [], [f"{name}: {ex}"]
        ev["coverage"][name] = cov
        all_v += v
        all_n += n
        all_h += h
    # known findings
    reported = []
    for (p, sig, rp, detail) in all_v:
        k = known_match(sig)
        if k:
            print(f"KNOWN-FINDING: property={p} {k.get('what', '')} [{k['signature']}]")
        else:
            reported.append((p, sig, rp, detail))
    for (p, sig, rp, detail) in all_n:
        print(f"note: {p}-class finding seen by an interpreter engine while checking {prop} (not this check's property): {sig} {str(detail)[:200]} replay={rp}")
    ev["violations"] = ev.get("violations", 0) + len(reported)
    ev["wall_s"] = ev.get("wall_s", 0) + (time.time() - t0)
    if engines:
        ev["coverage"].setdefault("components", {})["stub_interpreter"] = ["CPUID under Miri (answers 'feature absent', as upstream cpufeatures does)"]
    json.dump(ev, open(evp, "w"), indent=1)
    for name, _ in engines:
        c = ev["coverage"].get(name, {})
        print(f"{name}: " + ", ".join(f"{k}={c[k]}" for k in c if isinstance(c[k], (int, float)) and not isinstance(c[k], bool)))
    if all_h:
        for h in all_h:
            print("HARNESS-ERROR: " + h, file=sys.stderr)
        return 2
    if reported:
        for (p, sig, rp, detail) in reported:
            print(json.dumps({"property": p, "signature": sig, "detail": str(detail)[:600]}))
            print(f"VIOLATION property={p} replay={rp}")
        return 1
    return 0


def replay(path):
    j = json.load(open(path))
    eng = j.get("engine")
    if eng == "shuttle":
        p = subprocess.run([SHUTTLE, "replay", j["schedule_file"]] + (["--scenario", "wl"] if j.get("scenario") == "wl" else []), capture_output=True, text=True)
        print(p.stdout.strip())
        if p.returncode == 1:
            print(f"VIOLATION property={j['property']} replay={path}")
        return p.returncode
    if eng == "cross-build":
        tfb = os.environ.get("VERIF_BIN_TF", "")
        if not tfb or not os.path.isfile(tfb):
            print("HARNESS-ERROR: no target-feature build available for this replay", file=sys.stderr)
            return 2
        if "list" in j:
            d = os.path.join(BUILD, "tmp", "xb-replay")
            os.makedirs(d, exist_ok=True)
            for f in os.listdir(d):
                os.remove(os.path.join(d, f))
            json.dump(j["list"], open(os.path.join(d, "replay.json"), "w"))
            a = _digest_lists(NATIVE, d, 0, 1, "")
            b = _digest_lists(tfb, d, 0, 1, "tf")
        else:
            def table(binp, label):
                e = env_offline()
                e["VERIF_BUILD_LABEL"] = label
                return {j["entry"]: json.loads(subprocess.run([binp, "anchor-table"], capture_output=True, text=True, env=e).stdout).get(j["entry"])}
            a, b = table(NATIVE, ""), table(tfb, "tf")
        print(json.dumps({"default_build": a, "target_feature_build": b}))
        if a != b:
            print("REPRODUCED")
            print(f"VIOLATION property={j['property']} replay={path}")
            return 1
        print("NOT-REPRODUCED")
        return 0
    if eng == "miri":
        if j["mode"] == "c16":
            r = c16_one(j["target"], j.get("grant", False), j["types"])
            print(json.dumps({k: r[k] for k in r if k != "error"})[:2000])
            if r["residue"] or (r["error"] and r["error"][0] in ("ub", "race", "deadlock")):
                print("REPRODUCED")
                print(f"VIOLATION property={j['property']} replay={path}")
                return 1
            print("NOT-REPRODUCED")
            return 0 if not r["error"] else 2
        if j["mode"] == "c14":
            tmp = os.path.join(BUILD, "tmp", "replay-c14.json")
            os.makedirs(os.path.dirname(tmp), exist_ok=True)
            json.dump(j["list"], open(tmp, "w"))
            r = c14_one(j["target"], tmp)
            print(json.dumps({k: r[k] for k in r if k != "stderr_tail"})[:2000])
            if r.get("status") in ("violation", "ub"):
                print("REPRODUCED")
                print(f"VIOLATION property={j['property']} replay={path}")
                return 1
            print("NOT-REPRODUCED")
            return 0 if r.get("status") == "ok" else 2
        if j["mode"] == "exec":
            tmp = os.path.join(BUILD, "tmp", "replay-list.json")
            os.makedirs(os.path.dirname(tmp), exist_ok=True)
            json.dump(j["list"], open(tmp, "w"))
            r = exec_one(j["target"], tmp, grant=j.get("grant", False))
            want = j["violation"]["class"]
            print(json.dumps({k: r[k] for k in r if k not in ("stderr_tail",)})[:2000])
            bad = r["status"] in ("violation", "ub", "race", "deadlock") or (r["status"] == "ok" and r["digest"] != r["native"] and want == "cross-target")
            if bad:
                print("REPRODUCED")
                print(f"VIOLATION property={j['property']} replay={path}")
                return 1
            print("NOT-REPRODUCED")
            return 0 if r["status"] == "ok" else 2
        else:
            rc, out, err, wall = run_miri(j["target"], j["miriflags"], j["argv"], 3000)
            kind, line = classify_miri_error(err)
            print(out[-1500:])
            if rc != 0 and (kind in ("ub", "race", "deadlock") or "RESULT violation" in out):
                print("REPRODUCED " + line)
                print(f"VIOLATION property={j['property']} replay={path}")
                return 1
            print("NOT-REPRODUCED" if rc == 0 else f"HARNESS-ERROR: {kind} {line}")
            return 0 if rc == 0 else 2
    print("HARNESS-ERROR: unknown engine in replay file", file=sys.stderr)
    return 2


def warm():
    rc = 0
    for t in ("x86_64", "i686", "aarch64", "x86_64-ni", "i686-ni", "s390x", "powerpc"):
        e = env_offline()
        if t in ("aarch64", "x86_64-ni", "i686-ni"):
            e["RUSTFLAGS"] = "-C target-feature=+aes"
        p = subprocess.run(["cargo", "+nightly", "miri", "setup", "--offline", "--target", TARGETS[t]], cwd={"aarch64": WS_A64, "x86_64-ni": os.path.join(BUILD, "ws-ni"), "i686-ni": os.path.join(BUILD, "ws-ni")}.get(t, WS), env=e, capture_output=True, text=True)
        if p.returncode != 0:
            print("HARNESS-ERROR: miri setup " + t + ": " + p.stderr[-500:], file=sys.stderr)
            rc = 2
        code, out, err, wall = run_miri(t, "", [], 3000)
        if "usage: sim-miri" not in err:
            print(f"HARNESS-ERROR: building sim-miri for {t} failed: {err[-800:]}", file=sys.stderr)
            rc = 2
        else:
            print(f"miri {t}: built in {wall:.0f}s")
    return rc


if __name__ == "__main__":
    if len(sys.argv) >= 5 and sys.argv[1] == "post":
        sys.exit(post(sys.argv[2], sys.argv[3], int(sys.argv[4])))
    if len(sys.argv) >= 3 and sys.argv[1] == "replay":
        sys.exit(replay(sys.argv[2]))
    if len(sys.argv) >= 2 and sys.argv[1] == "warm":
        sys.exit(warm())
    print(__doc__)
    sys.exit(2)
