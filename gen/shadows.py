#!/usr/bin/env python3
"""Generate the shadow packages and the simulator workspace.

Every build configuration named in the properties becomes a *separate cargo
package* whose `[lib] path` points straight at the working tree under
$VERIF_REPO (default /repo) and whose build.rs emits the `--cfg` flags of that
configuration.  All of them link into one simulator binary, so the same
operation can be applied to every realisation of a cipher in one process.

Only one kind of source is copied instead of referenced: the `aes_soft32*`
variants need `aes/src/soft.rs` with the two `target_pointer_width` path
predicates flipped so that fixslice32.rs (pure u32 arithmetic) is compiled on a
64-bit host.  The copy is refreshed from the working tree on every run and is
written only when its content changes (stable mtimes -> cargo stays
incremental).

Usage: shadows.py [--repo DIR] [--build DIR] [--engine native|shuttle]
"""
import argparse
import re, os, sys, shutil, tomllib, json

VERIF = os.path.dirname(os.path.dirname(os.path.abspath(__file__)))

# (shadow package, repo dir, cfgs, features, source transform)
def variants():
    v = []
    A = "aes"
    v += [
        ("aes_auto",      A, [], [], None),
        ("aes_auto_z",    A, [], ["zeroize", "hazmat"], None),
        ("aes_autoc_z",   A, ["aes_compact"], ["zeroize"], None),
        ("aes_soft",      A, ["aes_force_soft"], [], None),
        ("aes_soft_z",    A, ["aes_force_soft"], ["zeroize", "hazmat"], None),
        ("aes_softc_z",   A, ["aes_force_soft", "aes_compact"], ["zeroize"], None),
        ("aes_alt_z",     A, ["aes_force_soft"], ["zeroize"], "flip_fixslice"),
        ("aes_altc_z",    A, ["aes_force_soft", "aes_compact"], ["zeroize"], "flip_fixslice"),
        # the same cfg combinations without any feature: cfg x feature product complete
        ("aes_autoc",     A, ["aes_compact"], [], None),
        ("aes_softc",     A, ["aes_force_soft", "aes_compact"], [], None),
        ("aes_alt",       A, ["aes_force_soft"], [], "flip_fixslice"),
        ("aes_altc",      A, ["aes_force_soft", "aes_compact"], [], "flip_fixslice"),
    ]
    K = "kuznyechik"
    v += [
        ("kuz",           K, [], [], None),
        ("kuz_z",         K, [], ["zeroize"], None),
        ("kuz_soft",      K, ['kuznyechik_backend="soft"'], [], None),
        ("kuz_soft_z",    K, ['kuznyechik_backend="soft"'], ["zeroize"], None),
        ("kuz_compact_z", K, ['kuznyechik_backend="compact_soft"'], ["zeroize"], None),
        ("kuz_compact",   K, ['kuznyechik_backend="compact_soft"'], [], None),
    ]
    v += [
        ("serpent",       "serpent", [], [], None),
        ("serpent_z",     "serpent", [], ["zeroize"], None),
        ("serpent_nu_z",  "serpent", ["serpent_no_unroll"], ["zeroize"], None),
        ("serpent_nu",    "serpent", ["serpent_no_unroll"], [], None),
        ("blowfish",      "blowfish", [], [], None),
        ("blowfish_zb",   "blowfish", [], ["zeroize", "bcrypt"], None),
    ]
    for d in ["aria", "belt-block", "camellia", "cast5", "cast6", "des", "gift", "idea",
              "magma", "rc2", "rc5", "sm4", "speck", "threefish", "twofish", "xtea"]:
        n = d.replace("-", "_")
        v += [(n, d, [], [], None), (n + "_z", d, [], ["zeroize"], None)]
    # threefish has an optional `cipher` feature: zeroize without it is a configuration of its own
    v += [("threefish_nc_z", "threefish", [], ["zeroize", "-cipher"], None)]
    return v

CHECK_CFG = [
    "cfg(aes_compact)", "cfg(aes_force_soft)", "cfg(serpent_no_unroll)",
    'cfg(kuznyechik_backend, values("soft", "compact_soft"))',
]

def write_if_changed(path, content, mode="w"):
    os.makedirs(os.path.dirname(path), exist_ok=True)
    try:
        with open(path, "rb" if "b" in mode else "r") as f:
            if f.read() == content:
                return False
    except FileNotFoundError:
        pass
    tmp = path + ".tmp"
    with open(tmp, mode) as f:
        f.write(content)
    os.replace(tmp, path)
    return True

def toml_value(v):
    if isinstance(v, bool):
        return "true" if v else "false"
    if isinstance(v, str):
        return json.dumps(v)
    if isinstance(v, list):
        return "[" + ", ".join(toml_value(x) for x in v) + "]"
    if isinstance(v, dict):
        return "{ " + ", ".join(f"{k} = {toml_value(x)}" for k, x in v.items()) + " }"
    return str(v)

def dep_table(name, deps):
    out = [f"[{name}]"]
    for k, v in deps.items():
        out.append(f"{json.dumps(k) if not k.replace('-', '_').isidentifier() else k} = {toml_value(v)}")
    return "\n".join(out) + "\n"

def sync_tree(src, dst, transform):
    """Copy src tree to dst (write-if-changed), applying transform(path, text)."""
    seen = set()
    for root, _dirs, files in os.walk(src):
        for fn in files:
            sp = os.path.join(root, fn)
            rel = os.path.relpath(sp, src)
            seen.add(rel)
            with open(sp, "r") as f:
                text = f.read()
            text = transform(rel, text)
            write_if_changed(os.path.join(dst, rel), text)
    for root, _dirs, files in os.walk(dst):
        for fn in files:
            rel = os.path.relpath(os.path.join(root, fn), dst)
            if rel not in seen and rel != "verif_neon_model.rs":
                os.remove(os.path.join(root, fn))

def flip_fixslice(rel, text):
    """The alternate-width AES shadows: every `target_pointer_width = "64"` predicate of the crate reads "32" and
    vice versa, so that a 64-bit host compiles what a 32-bit target would select (fixslice32 and whatever else the
    crate keys on the pointer width) and the 32-bit interpreter target compiles the 64-bit selection. If the crate
    stops keying anything on the pointer width the shadow is simply a second copy of the forced-soft build."""
    return re.sub(r'target_pointer_width\s*=\s*"(64|32)"', lambda m: 'target_pointer_width = "%s"' % ("32" if m.group(1) == "64" else "64"), text)

NEON_NAMES = "vaeseq_u8, vaesdq_u8, vaesmcq_u8, vaesimcq_u8, vqtbl4q_u8"

def neon_model(rel, text):
    """aarch64 interpreter runs: redirect the five intrinsics Miri lacks to the software model."""
    if rel == "lib.rs":
        return text + "\n#[allow(dead_code)]\nmod verif_neon_model;\n"
    if "_mm_aeskeygenassist_si128(" in text and "test_expand" not in rel:
        # x86 interpreter runs with detection granted: the one AES-NI intrinsic Miri lacks
        text = text.replace("_mm_aeskeygenassist_si128(", "crate::verif_neon_model::x86_keygenassist(")
    if "arch::aarch64::*" not in text:
        return text
    lines = text.split("\n")
    out = []
    pending = False
    for ln in lines:
        out.append(ln)
        if "arch::aarch64::*" in ln:
            pending = True
        if pending and ";" in ln:
            out.append("#[allow(unused_imports)]\nuse crate::verif_neon_model::{%s};" % NEON_NAMES)
            pending = False
    return "\n".join(out)

SYNC_PAT = re.compile(r"\b(core|std)::sync::")

def shuttle_sync(rel, text):
    """shuttle workspace: every synchronisation primitive a crate uses (core/std atomics, std locks) becomes
    shuttle's, i.e. a scheduling point of the controlled scheduler. The unchanged tree uses none."""
    return SYNC_PAT.sub("shuttle::sync::", text)

def uses_sync(src_dir):
    for root, _d, files in os.walk(src_dir):
        for fn in files:
            if fn.endswith(".rs"):
                with open(os.path.join(root, fn)) as f:
                    if SYNC_PAT.search(f.read()):
                        return True
    return False

def compose(*fs):
    def t(rel, text):
        for f in fs:
            if f:
                text = f(rel, text)
        return text
    return t

TRANSFORMS = {"flip_fixslice": flip_fixslice, "neon_model": neon_model, "shuttle_sync": shuttle_sync,
              "flip_fixslice+shuttle_sync": compose(flip_fixslice, shuttle_sync)}
A64_SHADOWS = ["aes_auto", "aes_auto_z", "aes_autoc_z", "aes_autoc", "kuz", "kuz_z"]

def gen_shadow(build, repo, name, rdir, cfgs, feats, transform, sub="shadows", extra_deps=None):
    pdir = os.path.join(build, sub, name)
    with open(os.path.join(repo, rdir, "Cargo.toml"), "rb") as f:
        man = tomllib.load(f)
    pkg = man["package"]
    if transform:
        sync_tree(os.path.join(repo, rdir, "src"), os.path.join(pdir, "src"), TRANSFORMS[transform])
        if transform == "neon_model":
            with open(os.path.join(VERIF, "sim", "models", "verif_neon_model.rs")) as f:
                write_if_changed(os.path.join(pdir, "src", "verif_neon_model.rs"), f.read())
        libpath = os.path.join(pdir, "src", "lib.rs")
    else:
        libpath = os.path.join(repo, rdir, "src", "lib.rs")
    out = []
    out.append("# GENERATED by /verif/gen/shadows.py - do not edit\n[package]")
    out.append(f'name = "{name}"')
    out.append('version = "0.0.0"')
    out.append(f'edition = "{pkg.get("edition", "2021")}"')
    out.append('build = "build.rs"')
    out.append("publish = false\n")
    out.append("[lib]")
    out.append(f'name = "{name}"')
    out.append(f"path = {json.dumps(libpath)}")
    out.append("doctest = false\ntest = false\n")
    s = "\n".join(out) + "\n"
    deps = dict(man.get("dependencies", {}))
    deps.update(extra_deps or {})
    s += dep_table("dependencies", deps) + "\n"
    for tgt, tv in man.get("target", {}).items():
        if "dependencies" in tv:
            s += dep_table(f"target.{json.dumps(tgt)}.dependencies".replace('"', "'", 2)
                           if False else f"target.'{tgt}'.dependencies", tv["dependencies"]) + "\n"
    features = dict(man.get("features", {}))
    # optional deps create implicit features
    for dn, dv in man.get("dependencies", {}).items():
        if isinstance(dv, dict) and dv.get("optional") and dn not in features:
            refs = any(("dep:" + dn) in x for fv in features.values() for x in fv)
            if not refs:
                features[dn] = ["dep:" + dn]
    minus = [f[1:] for f in feats if f.startswith("-")]
    feats = [f for f in feats if not f.startswith("-")]
    for ft in feats:
        if ft not in features:
            sys.stderr.write(f"HARNESS-ERROR: {rdir} has no feature {ft}\n")
            sys.exit(2)
    features["default"] = [f for f in features.get("default", []) if f not in minus] + feats
    s += dep_table("features", features) + "\n"
    s += '[lints.rust]\nunexpected_cfgs = "allow"\nmissing_docs = "allow"\n'
    write_if_changed(os.path.join(pdir, "Cargo.toml"), s)
    b = "// GENERATED\nfn main() {\n"
    for c in CHECK_CFG:
        b += f"    println!({json.dumps('cargo:rustc-check-cfg=' + c)});\n"
    for c in cfgs:
        b += f"    println!({json.dumps('cargo:rustc-cfg=' + c)});\n"
    b += '    println!("cargo:rerun-if-changed=build.rs");\n}\n'
    write_if_changed(os.path.join(pdir, "build.rs"), b)

def main():
    ap = argparse.ArgumentParser()
    ap.add_argument("--repo", default=os.environ.get("VERIF_REPO", "/repo"))
    ap.add_argument("--build", default=os.environ.get("VERIF_BUILD", os.path.join(VERIF, ".build")))
    args = ap.parse_args()
    repo = os.path.abspath(args.repo)
    build = os.path.abspath(args.build)
    vs = variants()
    for (name, rdir, cfgs, feats, tr) in vs:
        gen_shadow(build, repo, name, rdir, cfgs, feats, tr)

    # simulator workspace (native + miri engines)
    ws = os.path.join(build, "ws")
    simsrc = os.path.join(VERIF, "sim")
    m = "# GENERATED by /verif/gen/shadows.py - do not edit\n"
    m += '[package]\nname = "sim"\nversion = "0.0.0"\nedition = "2024"\npublish = false\nautobins = false\n\n'
    m += f'[lib]\nname = "sim"\npath = {json.dumps(os.path.join(simsrc, "src", "lib.rs"))}\ndoctest = false\n\n'
    for b in ["native", "miri"]:
        p = os.path.join(simsrc, "src", "bin", b + ".rs")
        if os.path.exists(p):
            m += f'[[bin]]\nname = "sim-{b}"\npath = {json.dumps(p)}\ntest = false\n\n'
    m += "[dependencies]\n"
    m += 'cipher = "=0.5.0-pre.8"\n'
    m += 'cpufeatures = "0.2"\n'
    m += 'serde_json = "1"\n'
    m += 'libc = "0.2"\n'
    for (name, *_r) in vs:
        m += f'{name} = {{ path = "../shadows/{name}" }}\n'
    m += "\n[features]\ndefault = []\n"
    m += "\n[profile.release]\nopt-level = 2\ndebug = 0\ncodegen-units = 16\nincremental = false\npanic = \"unwind\"\noverflow-checks = false\n"
    m += "\n[profile.dev]\nopt-level = 1\ndebug = 0\n"
    m += f'\n[patch.crates-io]\ncpufeatures = {{ path = {json.dumps(os.path.join(VERIF, "seam", "cpufeatures"))} }}\n'
    m += "\n[workspace]\n"
    write_if_changed(os.path.join(ws, "Cargo.toml"), m)
    write_if_changed(os.path.join(ws, ".cargo", "config.toml"),
                     f'[net]\noffline = true\n[build]\ntarget-dir = {json.dumps(os.path.join(build, "target"))}\n')
    lock_src = os.path.join(VERIF, "sim", "Cargo.lock")
    lock_dst = os.path.join(ws, "Cargo.lock")
    if os.path.exists(lock_src):
        if not os.path.exists(lock_dst):
            shutil.copy(lock_src, lock_dst)
    elif not os.path.exists(lock_dst):
        shutil.copy(os.path.join(repo, "Cargo.lock"), lock_dst)
    # aarch64 interpreter workspace: five packages are source shadows with the intrinsic model
    a64_ok = True
    for (name, rdir, cfgs, feats, tr) in vs:
        if name in A64_SHADOWS:
            gen_shadow(build, repo, name, rdir, cfgs, feats, "neon_model", sub="shadows-a64")
    ws3 = os.path.join(build, "ws-a64")
    m3 = m.replace('[[bin]]\nname = "sim-native"', '[[bin]]\nname = "sim-native-unused"')
    for name in A64_SHADOWS:
        m3 = m3.replace(f'{name} = {{ path = "../shadows/{name}" }}', f'{name} = {{ path = "../shadows-a64/{name}" }}')
    write_if_changed(os.path.join(ws3, "Cargo.toml"), m3)
    write_if_changed(os.path.join(ws3, ".cargo", "config.toml"),
                     f'[net]\noffline = true\n[build]\ntarget-dir = {json.dumps(os.path.join(build, "target-miri-a64"))}\n')
    if not os.path.exists(os.path.join(ws3, "Cargo.lock")):
        shutil.copy(lock_dst, os.path.join(ws3, "Cargo.lock"))
    # x86_64 interpreter workspace with the AES-NI arm live: same modelled-intrinsic shadows (the transform
    # also redirects _mm_aeskeygenassist_si128), detection granted by the simulator
    ws4 = os.path.join(build, "ws-ni")
    write_if_changed(os.path.join(ws4, "Cargo.toml"), m3)
    write_if_changed(os.path.join(ws4, ".cargo", "config.toml"),
                     f'[net]\noffline = true\n[build]\ntarget-dir = {json.dumps(os.path.join(build, "target-miri-ni"))}\n')
    if not os.path.exists(os.path.join(ws4, "Cargo.lock")):
        shutil.copy(lock_dst, os.path.join(ws4, "Cargo.lock"))

    # shuttle workspace: the whole simulator library and every shadow; crates whose source uses synchronisation
    # primitives get an instrumented source copy (primitives -> shuttle's), the others are shared with ws
    ws2 = os.path.join(build, "ws-shuttle")
    instrumented = []
    for (name, rdir, cfgs, feats, tr) in vs:
        if uses_sync(os.path.join(repo, rdir, "src")):
            t2 = "flip_fixslice+shuttle_sync" if tr == "flip_fixslice" else "shuttle_sync"
            gen_shadow(build, repo, name, rdir, cfgs, feats, t2, sub="shadows-sh", extra_deps={"shuttle": "0.9"})
            instrumented.append(name)
    shdir = os.path.join(build, "shadows-sh")
    if os.path.isdir(shdir):
        for d in os.listdir(shdir):
            if d not in instrumented:
                shutil.rmtree(os.path.join(shdir, d))
    m = "# GENERATED by /verif/gen/shadows.py - do not edit\n"
    m += '[package]\nname = "sim-shuttle"\nversion = "0.0.0"\nedition = "2024"\npublish = false\nautobins = false\n\n'
    m += f'[lib]\nname = "sim"\npath = {json.dumps(os.path.join(simsrc, "src", "lib.rs"))}\ndoctest = false\n\n'
    m += f'[[bin]]\nname = "sim-shuttle"\npath = {json.dumps(os.path.join(VERIF, "sim-shuttle", "src", "main.rs"))}\ntest = false\n\n'
    m += "[dependencies]\n"
    m += 'cipher = "=0.5.0-pre.8"\n'
    m += 'cpufeatures = { version = "0.2", features = ["shuttle"] }\n'
    m += 'shuttle = "0.9"\n'
    m += 'serde_json = "1"\n'
    m += 'libc = "0.2"\n'
    for (name, *_r) in vs:
        sub = "shadows-sh" if name in instrumented else "shadows"
        m += f'{name} = {{ path = "../{sub}/{name}" }}\n'
    m += "\n[profile.release]\nopt-level = 2\ndebug = 0\ncodegen-units = 16\nincremental = false\npanic = \"unwind\"\n"
    m += f'\n[patch.crates-io]\ncpufeatures = {{ path = {json.dumps(os.path.join(VERIF, "seam", "cpufeatures"))} }}\n'
    m += "\n[workspace]\n"
    write_if_changed(os.path.join(ws2, "Cargo.toml"), m)
    write_if_changed(os.path.join(ws2, ".cargo", "config.toml"),
                     f'[net]\noffline = true\n[build]\ntarget-dir = {json.dumps(os.path.join(build, "target-shuttle"))}\n')
    # the same workspace without instrumentation (fallback when an instrumented source does not compile)
    ws2p = os.path.join(build, "ws-shuttle-plain")
    write_if_changed(os.path.join(ws2p, "Cargo.toml"), m.replace("../shadows-sh/", "../shadows/"))
    write_if_changed(os.path.join(ws2p, ".cargo", "config.toml"),
                     f'[net]\noffline = true\n[build]\ntarget-dir = {json.dumps(os.path.join(build, "target-shuttle"))}\n')
    write_if_changed(os.path.join(build, "shuttle-instrumented.json"), json.dumps(instrumented))
    lock_src = os.path.join(VERIF, "sim-shuttle", "Cargo.lock")
    for w in (ws2, ws2p):
        lock_dst = os.path.join(w, "Cargo.lock")
        if not os.path.exists(lock_dst):
            shutil.copy(lock_src if os.path.exists(lock_src) else os.path.join(repo, "Cargo.lock"), lock_dst)
    with open(os.path.join(build, "variants.json"), "w") as f:
        json.dump([{"name": n, "dir": d, "cfgs": c, "features": ft, "transform": t}
                   for (n, d, c, ft, t) in vs], f, indent=1)
    print(f"shadows: {len(vs)} packages under {build}/shadows (repo {repo})")

if __name__ == "__main__":
    main()
