#!/usr/bin/env python3
"""Hexadecimal expansion of the fractional part of pi, computed (Machin's formula on
Python integers), not copied: the C14 reference model derives Blowfish's initial
P-array and S-boxes (18 + 4*256 32-bit words = 8336 hex digits) from it.

Usage: pi_hex.py <out-file> [ndigits]
"""
import sys

def arctan_inv(x, unity):
    # arctan(1/x) * unity, integer arithmetic
    total = term = unity // x
    x2 = x * x
    n = 3
    sign = -1
    while term:
        term //= x2
        total += sign * (term // n)
        sign = -sign
        n += 2
    return total

def pi_frac_hex(nd):
    guard = 24
    unity = 16 ** (nd + guard)
    pi = 4 * (4 * arctan_inv(5, unity) - arctan_inv(239, unity))
    frac = pi - 3 * unity
    frac //= 16 ** guard
    return format(frac, "x").rjust(nd, "0")

if __name__ == "__main__":
    out = sys.argv[1]
    nd = int(sys.argv[2]) if len(sys.argv) > 2 else 8336
    h = pi_frac_hex(nd)
    assert h.startswith("243f6a8885a308d313198a2e03707344"), h[:40]
    with open(out, "w") as f:
        f.write(h + "\n")
