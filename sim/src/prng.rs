//! The one source of randomness: xoshiro256** seeded through SplitMix64.
//!
//! All draws are `u64` with multiply-shift bounding, so the same seed yields the
//! same workload on x86-64, i686 and aarch64 (no `usize`-width dependence).

#[derive(Clone, Debug)]
pub struct Prng {
    s: [u64; 4],
    /// number of draws, part of the determinism log
    pub draws: u64,
}

pub fn splitmix64(x: &mut u64) -> u64 {
    *x = x.wrapping_add(0x9E37_79B9_7F4A_7C15);
    let mut z = *x;
    z = (z ^ (z >> 30)).wrapping_mul(0xBF58_476D_1CE4_E5B9);
    z = (z ^ (z >> 27)).wrapping_mul(0x94D0_49BB_1331_11EB);
    z ^ (z >> 31)
}

/// Seed of run `i` under master seed `m`.
pub fn run_seed(master: u64, i: u64) -> u64 {
    let mut x = master ^ i.wrapping_mul(0xD6E8_FEB8_6659_FD93).rotate_left(17);
    let a = splitmix64(&mut x);
    a ^ splitmix64(&mut x).rotate_left(23)
}

impl Prng {
    pub fn new(seed: u64) -> Self {
        let mut x = seed;
        let s = [splitmix64(&mut x), splitmix64(&mut x), splitmix64(&mut x), splitmix64(&mut x)];
        Prng { s, draws: 0 }
    }
    #[inline]
    pub fn next(&mut self) -> u64 {
        self.draws += 1;
        let r = self.s[1].wrapping_mul(5).rotate_left(7).wrapping_mul(9);
        let t = self.s[1] << 17;
        self.s[2] ^= self.s[0];
        self.s[3] ^= self.s[1];
        self.s[1] ^= self.s[2];
        self.s[0] ^= self.s[3];
        self.s[2] ^= t;
        self.s[3] = self.s[3].rotate_left(45);
        r
    }
    /// uniform in 0..n (n > 0)
    #[inline]
    pub fn below(&mut self, n: u64) -> u64 {
        debug_assert!(n > 0);
        ((self.next() as u128 * n as u128) >> 64) as u64
    }
    #[inline]
    pub fn range(&mut self, lo: u64, hi_incl: u64) -> u64 {
        lo + self.below(hi_incl - lo + 1)
    }
    #[inline]
    pub fn chance(&mut self, num: u64, den: u64) -> bool {
        self.below(den) < num
    }
    pub fn fill(&mut self, buf: &mut [u8]) {
        for ch in buf.chunks_mut(8) {
            let v = self.next().to_le_bytes();
            ch.copy_from_slice(&v[..ch.len()]);
        }
    }
    pub fn bytes(&mut self, n: usize) -> Vec<u8> {
        let mut v = vec![0u8; n];
        self.fill(&mut v);
        v
    }
    /// pick an index according to integer weights (sum > 0)
    pub fn weighted(&mut self, w: &[u32]) -> usize {
        let total: u64 = w.iter().map(|&x| x as u64).sum();
        let mut r = self.below(total);
        for (i, &x) in w.iter().enumerate() {
            if r < x as u64 {
                return i;
            }
            r -= x as u64;
        }
        w.len() - 1
    }
    pub fn pick<'a, T>(&mut self, v: &'a [T]) -> &'a T {
        &v[self.below(v.len() as u64) as usize]
    }
}

/// FNV-1a/64 with a final avalanche; used for history digests only.
#[derive(Clone, Copy, Debug)]
pub struct Digest(pub u64);

impl Default for Digest {
    fn default() -> Self {
        Digest(0xcbf2_9ce4_8422_2325)
    }
}

impl Digest {
    #[inline]
    pub fn bytes(&mut self, b: &[u8]) {
        let mut h = self.0;
        for &x in b {
            h ^= x as u64;
            h = h.wrapping_mul(0x0000_0100_0000_01B3);
        }
        // length separator
        h ^= b.len() as u64;
        h = h.wrapping_mul(0x0000_0100_0000_01B3);
        self.0 = h;
    }
    #[inline]
    pub fn u64(&mut self, v: u64) {
        self.bytes(&v.to_le_bytes());
    }
    pub fn str(&mut self, s: &str) {
        self.bytes(s.as_bytes());
    }
    pub fn finish(&self) -> u64 {
        let mut z = self.0;
        z = (z ^ (z >> 30)).wrapping_mul(0xBF58_476D_1CE4_E5B9);
        z = (z ^ (z >> 27)).wrapping_mul(0x94D0_49BB_1331_11EB);
        z ^ (z >> 31)
    }
}

pub fn hex(b: &[u8]) -> String {
    let mut s = String::with_capacity(b.len() * 2);
    for x in b {
        s.push_str(&format!("{:02x}", x));
    }
    s
}

pub fn unhex(s: &str) -> Option<Vec<u8>> {
    if s.len() % 2 != 0 {
        return None;
    }
    (0..s.len() / 2).map(|i| u8::from_str_radix(&s[2 * i..2 * i + 2], 16).ok()).collect()
}
