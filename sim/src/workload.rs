//! Seeded workload generation: per-run swarm configuration and the next
//! operation given the current world. Every choice comes from the run's PRNG.

use crate::mem::ARENA_BYTES;
use crate::prng::Prng;
use crate::registry::{Dir, Family, Registry, Role, SHAPES};
use crate::world::{Op, RunCfg, World, guard};
use std::collections::BTreeMap;

pub const REGION: usize = ARENA_BYTES / 4;

#[derive(Clone, Copy, Debug, PartialEq, Eq)]
pub enum Prop {
    C03,
    C04,
    C12,
    C15,
}

impl Prop {
    pub fn name(self) -> &'static str {
        match self {
            Prop::C03 => "C03",
            Prop::C04 => "C04",
            Prop::C12 => "C12",
            Prop::C15 => "C15",
        }
    }
    pub fn parse(s: &str) -> Option<Prop> {
        Some(match s {
            "C03" => Prop::C03,
            "C04" => Prop::C04,
            "C12" => Prop::C12,
            "C15" => Prop::C15,
            _ => return None,
        })
    }
}

// op kinds, in weight-array order
const K_NEW: usize = 0;
const K_CLONE: usize = 1;
const K_CONV: usize = 2;
const K_RELOC: usize = 3;
const K_DROP: usize = 4;
const K_CALL: usize = 5;
const K_ANCHOR: usize = 6;
const K_EPOCH: usize = 7;
const K_REPEAT: usize = 8;

pub struct Plan {
    pub max_blocks: Option<usize>,
    pub pars_hint: Option<Vec<usize>>,
    pub cfg: RunCfg,
    pub len: usize,
    pub weights: [u32; 9],
    pub shape_w: [u32; 9],
    pub fams: Vec<usize>,
    pub share: u64,
    pub key_reuse: u64,
    pub enc_bias: u32,
}

fn fam_weight(p: Prop, f: &Family) -> u32 {
    let multi = f.split || f.name == "serpent";
    match p {
        Prop::C03 => {
            if multi {
                12
            } else {
                1
            }
        }
        Prop::C12 => {
            if f.split {
                20
            } else {
                1
            }
        }
        Prop::C04 => {
            if multi {
                6
            } else {
                1
            }
        }
        Prop::C15 => {
            if multi {
                5
            } else {
                1
            }
        }
    }
}

/// Restrictions for the interpreter engines (None = no restriction).
#[derive(Clone, Default)]
pub struct Limits {
    pub families: Option<Vec<usize>>,
    pub variants: Option<Vec<String>>,
    pub max_len: Option<usize>,
    pub max_variants: Option<usize>,
    /// parallel widths of backends that exist only on another target (the list is generated natively
    /// but executed by the interpreter on that target): batch lengths are also drawn around these
    pub pars_hint: Option<Vec<usize>>,
    /// cap on the number of blocks per call (interpreter cost)
    pub max_blocks: Option<usize>,
}

pub fn plan(reg: &Registry, prop: Prop, rng: &mut Prng) -> Plan {
    plan_limited(reg, prop, rng, &Limits::default())
}

pub fn plan_limited(reg: &Registry, prop: Prop, rng: &mut Prng, lim: &Limits) -> Plan {
    let mut p = plan_inner(reg, prop, rng, lim);
    if let Some(m) = lim.max_len {
        p.len = p.len.min(m);
    }
    p.pars_hint = lim.pars_hint.clone();
    p.max_blocks = lim.max_blocks;
    p
}

fn plan_inner(reg: &Registry, prop: Prop, rng: &mut Prng, lim: &Limits) -> Plan {
    let nf = match prop {
        Prop::C03 => rng.range(1, 3),
        _ => rng.range(1, 4),
    } as usize;
    let w: Vec<u32> = reg
        .families
        .iter()
        .enumerate()
        .map(|(i, f)| match &lim.families {
            Some(a) if !a.contains(&i) => 0,
            _ => fam_weight(prop, f),
        })
        .collect();
    let nf = nf.min(w.iter().filter(|&&x| x > 0).count()).max(1);
    let mut fams: Vec<usize> = Vec::new();
    while fams.len() < nf {
        let f = rng.weighted(&w);
        if !fams.contains(&f) {
            fams.push(f);
        }
    }
    let mut variants = BTreeMap::new();
    let mut any_detect = false;
    for &f in &fams {
        let fam = &reg.families[f];
        let nv = fam.variants.len();
        let mut vs: Vec<usize> = Vec::new();
        let all = match prop {
            Prop::C03 => rng.chance(3, 4),
            _ => rng.chance(1, 6),
        };
        if all {
            vs = (0..nv).collect();
        } else {
            let want = match prop {
                Prop::C03 => rng.range(2, nv.max(2) as u64) as usize,
                _ => rng.range(1, 3.min(nv) as u64) as usize,
            }
            .min(nv);
            // bias toward variants that go through detection
            if rng.chance(2, 3) {
                let det: Vec<usize> =
                    (0..nv).filter(|&i| reg.types[fam.variants[i].both].detect).collect();
                if !det.is_empty() {
                    vs.push(*rng.pick(&det));
                }
            }
            while vs.len() < want {
                let v = rng.below(nv as u64) as usize;
                if !vs.contains(&v) {
                    vs.push(v);
                }
            }
            vs.sort();
        }
        if let Some(allowed) = &lim.variants {
            let keep: Vec<usize> = (0..nv).filter(|&i| allowed.iter().any(|a| a == fam.variants[i].variant)).collect();
            if !keep.is_empty() {
                vs.retain(|i| keep.contains(i));
                if vs.is_empty() {
                    vs.push(keep[0]);
                }
                if prop == Prop::C03 && vs.len() < 2 && keep.len() >= 2 {
                    vs = keep.clone();
                }
            }
        }
        if let Some(m) = lim.max_variants {
            vs.truncate(m.max(1));
        }
        if vs.iter().any(|&i| reg.types[fam.variants[i].both].detect) {
            any_detect = true;
        }
        variants.insert(f, vs);
    }
    let mask = any_detect && rng.chance(1, 2);
    let tasks = rng.range(1, 4) as u8;
    let strict_arena = rng.chance(1, 4);
    // C15 / C12: a quarter of the histories run with every oracle evaluation postponed to the end (the oracles
    // construct and use fresh instances, which would reset whatever process-wide state a call depends on)
    let deferred = matches!(prop, Prop::C15 | Prop::C12) && rng.chance(1, 4);
    let len = match prop {
        Prop::C15 => rng.range(8, 96),
        _ => rng.range(8, 64),
    } as usize;
    //                     new clone conv reloc drop call anchor epoch repeat
    let base: [u32; 9] = match prop {
        Prop::C03 => [14, 3, 5, 3, 4, 60, 4, 3, 4],
        Prop::C04 => [10, 2, 3, 3, 3, 75, 1, 1, 2],
        Prop::C12 => [12, 14, 20, 8, 10, 34, 1, 2, 2],
        Prop::C15 => [12, 6, 8, 8, 8, 40, 8, 4, 8],
    };
    let mut weights = base;
    for (i, w) in weights.iter_mut().enumerate() {
        let m = match rng.below(20) {
            0..=2 => 0,
            3..=11 => 1,
            12..=16 => 2,
            _ => 4,
        };
        if i == K_NEW || i == K_CALL {
            *w *= m.max(1);
        } else {
            *w *= m;
        }
    }
    if !any_detect {
        weights[K_EPOCH] = weights[K_EPOCH].min(1);
    }
    let mut shape_w: [u32; 9] = match prop {
        Prop::C04 => [2, 3, 3, 6, 8, 8, 3, 6, 6],
        _ => [4, 2, 2, 4, 3, 3, 1, 2, 2],
    };
    for w in shape_w.iter_mut() {
        if rng.chance(1, 6) {
            *w = 0;
        }
    }
    if shape_w.iter().all(|&x| x == 0) {
        shape_w[3] = 1;
    }
    Plan {
        max_blocks: None,
        pars_hint: None,
        cfg: RunCfg { variants, mask, tasks, strict_arena, deferred },
        len,
        weights,
        shape_w,
        fams,
        share: rng.below(4),
        key_reuse: rng.below(4),
        enc_bias: if prop == Prop::C12 { 70 } else { 40 },
    }
}

/// Structured byte patterns: defects that depend on particular byte values (a lane that goes wrong when
/// a byte is 0x00 / 0x80 / 0xff, all bytes equal, a single set bit) hide from uniformly random data.
pub fn special_bytes(rng: &mut Prng, n: usize) -> Vec<u8> {
    if n == 0 {
        return Vec::new();
    }
    const VALS: [u8; 8] = [0x00, 0xff, 0x80, 0x01, 0x7f, 0xfe, 0x1b, 0x63];
    match rng.below(7) {
        0 => vec![*rng.pick(&VALS); n],
        1 => {
            let b = rng.next() as u8;
            vec![b; n]
        }
        2 => {
            // a single set bit
            let mut v = vec![0u8; n];
            let i = rng.below(n as u64) as usize;
            v[i] = 1 << rng.below(8);
            v
        }
        3 => {
            // a single cleared bit
            let mut v = vec![0xffu8; n];
            let i = rng.below(n as u64) as usize;
            v[i] = !(1 << rng.below(8));
            v
        }
        4 => {
            // random with a few special bytes planted
            let mut v = rng.bytes(n);
            for _ in 0..rng.range(1, 4) {
                let i = rng.below(n as u64) as usize;
                v[i] = *rng.pick(&VALS);
            }
            v
        }
        5 => (0..n).map(|i| i as u8).collect(),
        _ => {
            // every byte drawn from the special values
            (0..n).map(|_| *rng.pick(&VALS)).collect()
        }
    }
}

/// Blocks of one batch that are related to each other (counter-mode style, one byte apart, shared halves):
/// lane mix-ups and anything keyed on part of a block hide from independent random blocks.
pub fn related_blocks(rng: &mut Prng, n: usize, bs: usize) -> Vec<u8> {
    if n == 0 {
        return Vec::new();
    }
    let base = if rng.chance(1, 4) { special_bytes(rng, bs) } else { rng.bytes(bs) };
    let mode = rng.below(8);
    let mut out = Vec::with_capacity(n * bs);
    if mode >= 6 {
        // relations *within groups* of neighbouring blocks, a different base per group: runs of 2, 3 or 4 blocks
        // (or alternating A, B, A, B) that share a prefix, a suffix or one half of their bytes with their group's
        // base while the groups differ from each other (a batch path that compares or merges neighbouring blocks
        // sees equal parts in some neighbours and not in others)
        let g = *rng.pick(&[2usize, 2, 3, 4]);
        let share = *rng.pick(&[bs / 2, bs / 2, bs - 1, (bs / 4).max(1), bs]);
        let suffix = rng.chance(1, 3);
        let alternating = mode == 7;
        let mut bases: Vec<Vec<u8>> = vec![base.clone(), rng.bytes(bs)];
        for i in 0..n {
            let gi = if alternating { i % 2 } else { i / g };
            while bases.len() <= gi {
                bases.push(rng.bytes(bs));
            }
            let mut b = rng.bytes(bs);
            let (lo, hi) = if suffix { (bs - share, bs) } else { (0, share) };
            b[lo..hi].copy_from_slice(&bases[gi][lo..hi]);
            out.extend_from_slice(&b);
        }
        return out;
    }
    for i in 0..n {
        let mut b = base.clone();
        match mode {
            0 => {
                // big-endian counter in the last 4 bytes
                let c = (i as u32).to_be_bytes();
                let k = bs.min(4);
                b[bs - k..].copy_from_slice(&c[4 - k..]);
            }
            1 => {
                // little-endian counter in the first bytes
                b[0] = b[0].wrapping_add(i as u8);
            }
            2 => {
                // one byte apart at a random position
                if i > 0 {
                    let p = rng.below(bs as u64) as usize;
                    b[p] ^= 1 + rng.below(255) as u8;
                }
            }
            3 => {
                // shares a random half of the byte positions with the base, the rest is fresh
                if i > 0 {
                    let mask = rng.next();
                    for (p, x) in b.iter_mut().enumerate() {
                        if (mask >> (p % 64)) & 1 == 1 {
                            *x = rng.next() as u8;
                        }
                    }
                }
            }
            4 => {
                // rotated copies of the base
                b.rotate_left(i % bs);
            }
            _ => {
                // identical blocks except one
                if i == n / 2 {
                    b = rng.bytes(bs);
                }
            }
        }
        out.extend_from_slice(&b);
    }
    out
}

pub struct Gen {
    pub next_id: u32,
    /// (task, id)
    pub owned: Vec<(u8, u32)>,
    pub call_steps: Vec<u32>,
    /// every key used so far in this run, per family (instances may be dead by now)
    pub keys_seen: Vec<(usize, Vec<u8>)>,
}

impl Default for Gen {
    fn default() -> Self {
        Self::new()
    }
}

impl Gen {
    pub fn new() -> Gen {
        Gen { next_id: 1, owned: Vec::new(), call_steps: Vec::new(), keys_seen: Vec::new() }
    }

    fn pick_inst(&self, w: &World, rng: &mut Prng, task: u8, share: u64, pred: impl Fn(&crate::world::Inst) -> bool) -> Option<u32> {
        let live: Vec<(u8, u32)> =
            self.owned.iter().copied().filter(|(_, id)| w.insts.get(id).map(&pred).unwrap_or(false)).collect();
        if live.is_empty() {
            return None;
        }
        let mine: Vec<u32> = live.iter().filter(|(t, _)| *t == task).map(|x| x.1).collect();
        if !mine.is_empty() && rng.below(4) >= share.min(3) {
            Some(*rng.pick(&mine))
        } else {
            Some(rng.pick(&live).1)
        }
    }

    fn new_op(&mut self, w: &World, plan: &Plan, rng: &mut Prng, task: u8, force_role: Option<Role>) -> Op {
        let reg = w.reg;
        let f = *rng.pick(&plan.fams);
        let fam = &reg.families[f];
        let role = if fam.split {
            force_role.unwrap_or_else(|| {
                let r = rng.below(100) as u32;
                if r < plan.enc_bias {
                    Role::Enc
                } else if r < plan.enc_bias + (100 - plan.enc_bias) * 2 / 3 {
                    Role::Both
                } else {
                    Role::Dec
                }
            })
        } else {
            Role::Both
        };
        let klen = *rng.pick(&fam.key_lens);
        // sometimes a key related to one used earlier in this run (alive or not): the same key, its cyclic
        // extension or truncation to another accepted length, a shared prefix, a one-byte difference.
        // State keyed too weakly by the key (a cache, a memo) shows on related keys, not on random ones.
        let mut key = None;
        if rng.below(4) < plan.key_reuse {
            let same: Vec<&Vec<u8>> = self.keys_seen.iter().filter(|(ff, _)| *ff == f).map(|(_, k)| k).collect();
            if !same.is_empty() {
                let k0 = (*rng.pick(&same)).clone();
                // AES-192/256: now and then a key sharing one round key of the expanded schedule with k0
                let tw = if k0.len() == klen && fam.name.starts_with("aes") && rng.chance(1, 3) {
                    let round = if rng.chance(1, 2) { None } else { Some(1 + rng.below(13) as usize) };
                    schedule_twin::twin(&k0, round, rng)
                } else {
                    None
                };
                key = Some(match if tw.is_some() { 99 } else { rng.below(10) } {
                    99 => tw.unwrap(),
                    0..=3 => k0,
                    4..=6 => (0..klen).map(|i| k0[i % k0.len()]).collect(),
                    7 => {
                        let mut k = rng.bytes(klen);
                        let n = klen.min(k0.len());
                        k[..n].copy_from_slice(&k0[..n]);
                        k
                    }
                    _ => {
                        let mut k = k0;
                        let i = rng.below(k.len() as u64) as usize;
                        k[i] ^= 1 << rng.below(8);
                        k
                    }
                });
            }
        }
        let key = key.unwrap_or_else(|| match rng.below(24) {
            0 => vec![0u8; klen],
            1 => vec![0xffu8; klen],
            2..=4 => special_bytes(rng, klen),
            _ => rng.bytes(klen),
        });
        self.keys_seen.push((f, key.clone()));
        let fixed = key.len() == fam.key_size && rng.chance(1, 2);
        let id = self.next_id;
        self.next_id += 1;
        self.owned.push((task, id));
        Op::New { id, task, fam: f, role, key, fixed }
    }

    pub fn next(&mut self, w: &World, plan: &Plan, rng: &mut Prng) -> Op {
        let task = rng.below(plan.cfg.tasks as u64) as u8;
        if w.insts.is_empty() {
            return self.new_op(w, plan, rng, task, None);
        }
        let kind = rng.weighted(&plan.weights);
        match kind {
            K_NEW => self.new_op(w, plan, rng, task, None),
            K_CLONE => match self.pick_inst(w, rng, task, plan.share, |_| true) {
                Some(src) if rng.chance(1, 4) => {
                    // clone_from into another live instance of the same family and role, if there is one
                    let (sf, sr) = (w.insts[&src].fam, w.insts[&src].role);
                    let cands: Vec<u32> = w.insts.values().filter(|i| i.id != src && i.fam == sf && i.role == sr).map(|i| i.id).collect();
                    if cands.is_empty() {
                        let id = self.next_id;
                        self.next_id += 1;
                        self.owned.push((task, id));
                        Op::Clone { id, task, src }
                    } else {
                        Op::CloneFrom { id: *rng.pick(&cands), task, src }
                    }
                }
                Some(src) => {
                    let id = self.next_id;
                    self.next_id += 1;
                    self.owned.push((task, id));
                    Op::Clone { id, task, src }
                }
                None => self.new_op(w, plan, rng, task, None),
            },
            K_CONV => match self.pick_inst(w, rng, task, plan.share, |i| i.role == Role::Enc) {
                Some(src) => {
                    let id = self.next_id;
                    self.next_id += 1;
                    self.owned.push((task, id));
                    Op::Conv { id, task, src, to: if rng.chance(1, 2) { Role::Both } else { Role::Dec }, by_ref: rng.chance(3, 5) }
                }
                None => {
                    if plan.fams.iter().any(|&f| w.reg.families[f].split) {
                        // make a source for a later conversion
                        let mut op = self.new_op(w, plan, rng, task, Some(Role::Enc));
                        if let Op::New { fam, role, .. } = &mut op {
                            if !w.reg.families[*fam].split {
                                *role = Role::Both;
                            }
                        }
                        op
                    } else {
                        self.call_op(w, plan, rng, task)
                    }
                }
            },
            K_RELOC => match self.pick_inst(w, rng, task, plan.share, |_| true) {
                Some(id) => Op::Relocate { id, task, off: rng.below(8) as u8 },
                None => self.new_op(w, plan, rng, task, None),
            },
            K_DROP => match self.pick_inst(w, rng, task, plan.share, |_| true) {
                Some(id) => Op::Drop { id, task },
                None => self.new_op(w, plan, rng, task, None),
            },
            K_ANCHOR => {
                // half of the time an anchor of a family in play
                let n = w.anchors.entries.len() as u64;
                if n == 0 {
                    return self.call_op(w, plan, rng, task);
                }
                if rng.chance(1, 2) {
                    let f = w.reg.families[*rng.pick(&plan.fams)].name;
                    let c: Vec<usize> =
                        (0..n as usize).filter(|&i| w.reg.types[w.anchors.entries[i].ty].family == f).collect();
                    if !c.is_empty() {
                        let e = &w.anchors.entries[*rng.pick(&c)];
                        return Op::Anchor { ty: e.ty, dir: e.dir };
                    }
                }
                let e = &w.anchors.entries[rng.below(n) as usize];
                Op::Anchor { ty: e.ty, dir: e.dir }
            }
            K_EPOCH => Op::EpochFlip { mask: if rng.chance(3, 4) { !w.mask } else { w.mask } },
            K_REPEAT => {
                if self.call_steps.is_empty() {
                    self.call_op(w, plan, rng, task)
                } else {
                    Op::Repeat { step: *rng.pick(&self.call_steps) }
                }
            }
            _ => self.call_op(w, plan, rng, task),
        }
    }

    fn call_op(&mut self, w: &World, plan: &Plan, rng: &mut Prng, task: u8) -> Op {
        let id = match self.pick_inst(w, rng, task, plan.share, |_| true) {
            Some(id) => id,
            None => return self.new_op(w, plan, rng, task, None),
        };
        let inst = &w.insts[&id];
        let dir = match inst.role {
            Role::Enc => Dir::Enc,
            Role::Dec => Dir::Dec,
            Role::Both => {
                if rng.chance(1, 2) {
                    Dir::Enc
                } else {
                    Dir::Dec
                }
            }
        };
        let shape = SHAPES[rng.weighted(&plan.shape_w)];
        let bs = w.reg.families[inst.fam].block;
        let at_end = rng.chance(1, 6);
        // between inaccessible pages only the last region touches the page boundary: send end placements there
        let region = if at_end && plan.cfg.strict_arena { 3 * REGION } else { task as usize * REGION };
        // parallel width of one of the realisations
        let r = rng.pick(&inst.reals);
        let t = &w.reg.types[r.ty];
        let par = t
            .par(dir)
            .and_then(|pf| {
                let p = w.slots.ptr(r.slot);
                guard(|| unsafe { pf(p) }).ok()
            })
            .unwrap_or(1)
            .max(1);
        let par = match &plan.pars_hint {
            Some(h) if !h.is_empty() && rng.chance(2, 3) => *rng.pick(h),
            _ => par,
        };
        let maxn = ((REGION - 64) / 2 / bs).max(1);
        let maxn = plan.max_blocks.map(|m| m.min(maxn)).unwrap_or(maxn);
        let n = if shape.single() {
            1
        } else {
            let c = match rng.below(10) {
                0 => 0,
                1 => 1,
                2 => par.saturating_sub(1),
                3 => par,
                4 => par + 1,
                5 => 2 * par - 1,
                6 => 2 * par,
                7 => 2 * par + 1,
                8 => 3 * par + rng.below(6) as usize,
                _ => rng.range(0, 12) as usize,
            };
            // now and then a long batch: a fast path that only exists above some size (64, 128, 256 blocks ...)
            if rng.chance(1, 24) {
                let big = *rng.pick(&[31usize, 32, 33, 63, 64, 65, 127, 128, 129, 200, 254]);
                big.min(maxn)
            } else {
                c.min(maxn)
            }
        };
        let len = n * bs;
        let same = if shape.in_place_only() {
            true
        } else if shape.disjoint_only() {
            false
        } else {
            rng.chance(1, 2)
        };
        let (in_off, out_off) = if same || len == 0 {
            let off = if at_end {
                region + REGION - len
            } else {
                let room = REGION - len;
                region + (rng.below((room / 16).max(1) as u64) as usize * 16 + rng.below(16) as usize).min(room)
            };
            (off, off)
        } else {
            let gap = match rng.below(4) {
                0 => 0,
                1 => 1,
                _ => rng.below(48) as usize,
            };
            let span = 2 * len + gap;
            let a = if at_end || span >= REGION {
                region + REGION - span.min(REGION)
            } else {
                let room = REGION - span;
                region + (rng.below((room / 16).max(1) as u64) as usize * 16 + rng.below(16) as usize).min(room)
            };
            let b = a + len + gap;
            if rng.chance(1, 2) { (a, b) } else { (b, a) }
        };
        let data = match rng.below(14) {
            0 | 1 => special_bytes(rng, len),
            2..=4 if n > 1 => related_blocks(rng, n, bs),
            _ => rng.bytes(len),
        };
        self.call_steps.push(w.step as u32);
        Op::Call { id, task, dir, shape, n: n as u32, in_off: in_off as u32, out_off: out_off as u32, data }
    }
}

/// Keys whose *expanded* schedules partly coincide. Random, structured or bit-related keys never share a round
/// key; state that is identified by a part of the schedule (a fingerprint, a skipped copy) only shows on such
/// pairs. Implemented where the schedule is invertible from a window of its words: AES-192 and AES-256 (for
/// AES-128 one round key determines the key, so no second key exists).
pub mod schedule_twin {
    use crate::prng::Prng;

    fn sbox() -> [u8; 256] {
        // multiplicative inverse in GF(2^8) followed by the affine map (FIPS-197 5.1.1)
        let mut sb = [0u8; 256];
        let (mut p, mut q) = (1u8, 1u8);
        loop {
            p = p ^ (p << 1) ^ if p & 0x80 != 0 { 0x1B } else { 0 };
            q ^= q << 1;
            q ^= q << 2;
            q ^= q << 4;
            if q & 0x80 != 0 {
                q ^= 0x09;
            }
            let x = q ^ q.rotate_left(1) ^ q.rotate_left(2) ^ q.rotate_left(3) ^ q.rotate_left(4);
            sb[p as usize] = x ^ 0x63;
            if p == 1 {
                break;
            }
        }
        sb[0] = 0x63;
        sb
    }

    fn sub_word(sb: &[u8; 256], w: u32) -> u32 {
        u32::from_be_bytes(w.to_be_bytes().map(|b| sb[b as usize]))
    }

    fn f(sb: &[u8; 256], nk: usize, i: usize, prev: u32) -> u32 {
        if i % nk == 0 {
            let mut rc = 1u8;
            for _ in 1..i / nk {
                rc = (rc << 1) ^ if rc & 0x80 != 0 { 0x1B } else { 0 };
            }
            sub_word(sb, prev.rotate_left(8)) ^ ((rc as u32) << 24)
        } else if nk > 6 && i % nk == 4 {
            sub_word(sb, prev)
        } else {
            prev
        }
    }

    /// FIPS-197 key expansion, as big-endian words
    pub fn expand(key: &[u8]) -> Vec<u32> {
        let sb = sbox();
        let nk = key.len() / 4;
        let total = 4 * (nk + 7);
        let mut w: Vec<u32> = key.chunks(4).map(|c| u32::from_be_bytes([c[0], c[1], c[2], c[3]])).collect();
        for i in nk..total {
            let t = f(&sb, nk, i, w[i - 1]);
            w.push(w[i - nk] ^ t);
        }
        w
    }

    /// the key whose schedule holds `window` at word positions start..start+nk
    pub fn key_from_window(nk: usize, start: usize, window: &[u32]) -> Vec<u8> {
        let sb = sbox();
        let mut w = vec![0u32; start + nk];
        w[start..].copy_from_slice(window);
        for i in (nk..start + nk).rev() {
            w[i - nk] = w[i] ^ f(&sb, nk, i, w[i - 1]);
        }
        w[..nk].iter().flat_map(|x| x.to_be_bytes()).collect()
    }

    /// another key of the same length sharing round key `round` (None: the last) with `key`
    pub fn twin(key: &[u8], round: Option<usize>, rng: &mut Prng) -> Option<Vec<u8>> {
        let nk = key.len() / 4;
        if key.len() % 4 != 0 || (nk != 6 && nk != 8) {
            return None;
        }
        let nr = nk + 6;
        let r = round.unwrap_or(nr).clamp(1, nr);
        let w = expand(key);
        let total = w.len();
        let lo = (4 * r + 4).saturating_sub(nk);
        let hi = (4 * r).min(total - nk);
        let start = lo + rng.below((hi - lo + 1) as u64) as usize;
        let mut window: Vec<u32> = w[start..start + nk].to_vec();
        for (j, x) in window.iter_mut().enumerate() {
            let pos = start + j;
            if pos < 4 * r || pos >= 4 * r + 4 {
                *x ^= (rng.next() as u32) | 1;
            }
        }
        Some(key_from_window(nk, start, &window))
    }

    /// self-test: FIPS-197 A.2 / A.3 last words, window inversion, and the twin relation
    pub fn selftest() -> Result<(), String> {
        let k192: Vec<u8> = (0..24u8).map(|i| [0x8e, 0x73, 0xb0, 0xf7, 0xda, 0x0e, 0x64, 0x52, 0xc8, 0x10, 0xf3, 0x2b, 0x80, 0x90, 0x79, 0xe5, 0x62, 0xf8, 0xea, 0xd2, 0x52, 0x2c, 0x6b, 0x7b][i as usize]).collect();
        let w = expand(&k192);
        if w.len() != 52 || w[51] != 0x01002202 || w[6] != 0xfe0c91f7 {
            return Err(format!("AES-192 expansion: w6={:08x} w51={:08x}", w[6], w[51]));
        }
        let k256: Vec<u8> = vec![0x60, 0x3d, 0xeb, 0x10, 0x15, 0xca, 0x71, 0xbe, 0x2b, 0x73, 0xae, 0xf0, 0x85, 0x7d, 0x77, 0x81, 0x1f, 0x35, 0x2c, 0x07, 0x3b, 0x61, 0x08, 0xd7, 0x2d, 0x98, 0x10, 0xa3, 0x09, 0x14, 0xdf, 0xf4];
        let w = expand(&k256);
        if w.len() != 60 || w[59] != 0x706c631e || w[8] != 0x9ba35411 {
            return Err(format!("AES-256 expansion: w8={:08x} w59={:08x}", w[8], w[59]));
        }
        let mut rng = Prng::new(7);
        for key in [k192, k256] {
            let nk = key.len() / 4;
            let w = expand(&key);
            for start in [0, 3, w.len() - nk] {
                if key_from_window(nk, start, &w[start..start + nk]) != key {
                    return Err(format!("window inversion nk={} start={}", nk, start));
                }
            }
            for round in [None, Some(1), Some(5), Some(nk + 5)] {
                let t = twin(&key, round, &mut rng).ok_or("twin")?;
                let r = round.unwrap_or(nk + 6);
                let wt = expand(&t);
                if t == key || wt[4 * r..4 * r + 4] != w[4 * r..4 * r + 4] {
                    return Err(format!("twin nk={} round={}", nk, r));
                }
            }
        }
        Ok(())
    }
}
