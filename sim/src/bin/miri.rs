//! sim-miri: the simulator executed by Miri (also runs natively for smoke tests).
//!
//!   exec <file>...      single-threaded: execute explicit operation lists exported by
//!                       sim-native and print the portable history digest of each; the
//!                       driver compares it with the native digest of the same list.
//!                       Under Miri this runs the real cipher code of whatever target
//!                       the interpreter simulates (x86_64 soft arm, i686 fixslice32,
//!                       aarch64) with bounds, alignment and aliasing checked.
//!   threads <seed> ...  T real std threads share instances, construct/clone/convert
//!                       concurrently and call encrypt/decrypt; Miri's seeded scheduler
//!                       pre-empts inside cipher code and its race detector watches.
//!
//! Parameters come from argv only (cargo-miri replays build-time env).

use sim::engine::load_replay;
use sim::prng::{Digest, Prng, hex};
use sim::registry::{Dir, Registry, Role, SHAPES, Shape, TypeInfo};
use sim::world::{Anchors, fresh_perblock_raw, guard, install_quiet_panic_hook};
use std::sync::Arc;
use std::sync::atomic::{AtomicUsize, Ordering};

fn die(msg: &str) -> ! {
    eprintln!("HARNESS-ERROR: {}", msg);
    std::process::exit(2)
}

fn main() {
    let args: Vec<String> = std::env::args().collect();
    match args.get(1).map(|s| s.as_str()) {
        Some("exec") => exec(&args[2..]),
        Some("threads") => threads(&args[2..]),
        Some("c16") => c16(&args[2..]),
        Some("c14") => {
            if args.len() < 3 {
                die("c14 <pi hex> (<label> <json>)...");
            }
            std::process::exit(sim::bcrypt::exec_lists(&args[2], &args[3..]));
        }
        _ => die("usage: sim-miri exec [--grant] (<label> <json>)... | threads <seed> <threads> <ops> <mode> <families,..> [grant]"),
    }
}

fn exec(files: &[String]) {
    let reg = sim::registry::build();
    install_quiet_panic_hook();
    let mut rc = 0;
    let mut files = files.to_vec();
    if files.first().map(|s| s == "--grant").unwrap_or(false) {
        cpufeatures::sim::set_miri_grant(true);
        files.remove(0);
    }
    // arguments come in pairs: <label> <json text> (isolation stays on: no file access under Miri)
    if files.len() % 2 != 0 {
        die("exec [--grant] (<label> <json>)...");
    }
    for pair in files.chunks(2) {
        let (f, s) = (&pair[0], &pair[1]);
        let v: serde_json::Value = serde_json::from_str(&s).unwrap_or_else(|e| die(&format!("parse {}: {}", f, e)));
        let l = load_replay(&reg, &v).unwrap_or_else(|e| die(&e));
        // anchors for the families in play and for every family an Anchor operation of the list names
        // (the exporting process had them all; a skipped operation would change the digest)
        let mut fams: Vec<&str> = l.cfg.variants.keys().map(|&i| reg.families[i].name).collect();
        for op in &l.ops {
            if let sim::world::Op::Anchor { ty, .. } = op {
                let f = reg.types[*ty].family;
                if !fams.contains(&f) {
                    fams.push(f);
                }
            }
        }
        let anchors = Anchors::compute_for(&reg, Some(&fams));
        println!("@file {}", f);
        // same loop as engine::execute, with a marker before every operation so that an
        // interpreter abort (UB report) can be attributed to the operation it happened in
        let stale0 = cpufeatures::sim::stats().stale_token_reads;
        let mut w = sim::world::World::new(&reg, &anchors, l.cfg.clone(), l.seed);
        let mut viol = None;
        for (i, op) in l.ops.iter().enumerate() {
            // for calls also say how the instance was obtained: UB inside a call on a cloned / converted
            // instance is (also) a C12 matter
            let route_len = match op {
                sim::world::Op::Call { id, .. } => w.insts.get(id).map(|x| x.route.len()).unwrap_or(0),
                _ => 0,
            };
            println!("@op {} {} route_len={}", i, op.kind(), route_len);
            match w.apply(op) {
                Ok(so) => {
                    let mut d = Digest::default();
                    d.bytes(&so.out);
                    println!("@out {} applied={} {:016x}", i, so.applied, d.finish());
                }
                Err(v) => {
                    viol = Some(v);
                    break;
                }
            }
        }
        println!("@op end drop_all");
        w.finish();
        if cpufeatures::sim::stats().stale_token_reads != stale0 {
            die("a live detection token observed a stale cache");
        }
        match viol {
            Some(v) => {
                println!("RESULT {} violation {} {}", f, v.prop, v.to_json());
                rc = 1;
            }
            None => println!(
                "RESULT {} ok h_portable={:016x} steps={} calls={} skipped={}",
                f, w.h_portable.finish(), w.stats.steps, w.stats.cipher_calls, w.stats.skipped
            ),
        }
    }
    std::process::exit(rc);
}

// ---------------------------------------------------------------------------
// threads mode

struct SharedInst {
    ty: usize,
    ptr: *mut u8,
    key: Vec<u8>,
    fam: usize,
}
unsafe impl Send for SharedInst {}
unsafe impl Sync for SharedInst {}

#[derive(Clone, Debug)]
enum TOp {
    /// construct a fresh instance in this thread and use it (first-use race when the type goes through detection)
    NewUse { ty: usize, key: Vec<u8>, dir: Dir, shape: Shape, data: Vec<u8>, expect: Vec<u8> },
    /// call on a shared instance
    Shared { inst: usize, dir: Dir, shape: Shape, data: Vec<u8>, expect: Vec<u8> },
    /// clone a shared instance, use the clone, drop it
    CloneUse { inst: usize, dir: Dir, data: Vec<u8>, expect: Vec<u8> },
    /// convert a shared Enc instance by reference, use the result, drop it
    ConvUse { inst: usize, to: usize, dir: Dir, data: Vec<u8>, expect: Vec<u8> },
}

impl TOp {
    fn kind(&self) -> &'static str {
        match self {
            TOp::NewUse { .. } => "new_use",
            TOp::Shared { .. } => "shared_call",
            TOp::CloneUse { .. } => "clone_use",
            TOp::ConvUse { .. } => "conv_use",
        }
    }
}

static STAMP: AtomicUsize = AtomicUsize::new(0);

fn call_shape(t: &TypeInfo, inst: *const u8, dir: Dir, shape: Shape, data: &[u8]) -> Result<Vec<u8>, String> {
    let f = t.call(dir).ok_or("unsupported direction")?;
    let n = data.len() / t.block;
    let mut inb = data.to_vec();
    let mut outb = vec![0u8; data.len()];
    let same = shape.in_place_only() || (!shape.disjoint_only() && data.first().map(|b| b & 1 == 0).unwrap_or(true));
    if same {
        let p = inb.as_mut_ptr();
        guard(|| unsafe { f(inst, shape, p as *const u8, p, n) })?;
        Ok(inb)
    } else {
        let (pi, po) = (inb.as_ptr(), outb.as_mut_ptr());
        guard(|| unsafe { f(inst, shape, pi, po, n) })?;
        if inb != data {
            return Err("input buffer modified".into());
        }
        Ok(outb)
    }
}

fn threads(a: &[String]) {
    if a.len() < 5 {
        die("threads <seed> <threads> <ops> <mode: shared|firstuse|storm> <families,..> [grant]");
    }
    let seed: u64 = a[0].parse().unwrap_or_else(|_| die("seed"));
    let nt: usize = a[1].parse().unwrap_or_else(|_| die("threads"));
    let nops: usize = a[2].parse().unwrap_or_else(|_| die("ops"));
    let firstuse = a[3] == "firstuse";
    // "storm": one thread drives volume through every shared instance (48 blocks each, in 8-block calls, so that
    // whatever an instance builds or switches after its Nth block happens now) while all other threads keep cloning
    // and converting those same instances and use the copies
    let storm = a[3] == "storm";
    // "coldfirst": nothing of the listed families is constructed or used by the main thread before the workers
    // start - no shared instances, and the sequential model is evaluated only after the workers have been joined
    // (the model is a caller like any other: evaluating it first would perform every crate's first use in the
    // process, single-threaded). Every worker constructs and uses one instance of every listed family, in its own
    // order: the very first uses in the process overlap, or follow one another without any synchronisation.
    let cold = a[3] == "coldfirst";
    let firstuse = firstuse || cold;
    let fams: Vec<&str> = a[4].split(',').collect();
    if a.get(5).map(|s| s == "grant").unwrap_or(false) {
        cpufeatures::sim::set_miri_grant(true);
    }
    // optional restriction of build variants ("-" or absent: all)
    let only_variants: Vec<String> = a.get(6).filter(|s| s.as_str() != "-").map(|s| s.split(',').map(|x| x.to_string()).collect()).unwrap_or_default();
    let reg: Arc<Registry> = Arc::new(sim::registry::build());
    install_quiet_panic_hook();
    let mut rng = Prng::new(seed);
    println!("sim-miri threads seed={} threads={} ops/thread={} mode={} families={}", seed, nt, nops, a[3], a[4]);
    let fam_idx: Vec<usize> = fams.iter().map(|f| reg.family(f).unwrap_or_else(|| die(&format!("no family {}", f)))).collect();

    // The sequential model: a non-detection build variant's combined cipher, fresh, per block.
    // (In firstuse mode nothing in the main thread may touch the detection cache before the workers start.)
    let mut scratch_slots = sim::mem::Slots::new();
    let scratch = scratch_slots.alloc(0);
    let scratch_ptr = scratch_slots.ptr(scratch);
    let model_ty = |fam: usize| -> usize {
        let f = &reg.families[fam];
        f.variants.iter().map(|v| v.both).find(|&t| !reg.types[t].detect).unwrap_or(f.variants[0].both)
    };
    let expect = |fam: usize, key: &[u8], dir: Dir, data: &[u8]| -> Vec<u8> {
        let t = &reg.types[model_ty(fam)];
        fresh_perblock_raw(t, scratch_ptr, key, false, dir, data).unwrap_or_else(|e| die(&format!("model failed: {}", e)))
    };

    // variants to exercise: prefer those that go through detection / SIMD, then one other
    let pick_variant = |rng: &mut Prng, fam: usize| -> usize {
        let f = &reg.families[fam];
        let allowed: Vec<usize> = (0..f.variants.len())
            .filter(|&i| only_variants.is_empty() || only_variants.iter().any(|v| v == f.variants[i].variant))
            .collect();
        let allowed = if allowed.is_empty() { (0..f.variants.len()).collect() } else { allowed };
        let det: Vec<usize> = allowed.iter().copied().filter(|&i| reg.types[f.variants[i].both].detect).collect();
        if !det.is_empty() && rng.chance(3, 4) { *rng.pick(&det) } else { *rng.pick(&allowed) }
    };

    // shared instances
    let mut shared: Vec<SharedInst> = Vec::new();
    let mut backing = sim::mem::Slots::new();
    // systematically: every listed family gets a shared combined instance (the first one also one of
    // its halves, if it has any); then perhaps a random one
    // every listed family: one combined instance nobody has used yet (first-use races) and one the main thread
    // has already pushed close to a small block-count threshold (state built "after the Nth block")
    let mut wanted: Vec<(usize, Option<Role>, usize, Option<usize>)> = Vec::new();
    for &f in &fam_idx {
        // build variants named for this family on the command line are all shared (alternately fresh and
        // pre-used); without a restriction the variant of each instance is drawn at random
        let named: Vec<usize> = (0..reg.families[f].variants.len()).filter(|&i| only_variants.iter().any(|v| v == reg.families[f].variants[i].variant)).collect();
        if named.is_empty() {
            wanted.push((f, Some(Role::Both), 0, None));
            wanted.push((f, Some(Role::Both), *rng.pick(&[14usize, 15, 15, 16, 30, 31, 62, 63]), None));
        } else {
            for (k, &vi) in named.iter().enumerate() {
                let pre = if k % 2 == 0 { 0 } else { *rng.pick(&[14usize, 15, 15, 16, 30, 31, 62, 63]) };
                wanted.push((f, Some(Role::Both), pre, Some(vi)));
            }
            if named.len() == 1 {
                wanted.push((f, Some(Role::Both), *rng.pick(&[14usize, 15, 15, 16, 30, 31, 62, 63]), Some(named[0])));
            }
        }
    }
    if reg.families[fam_idx[0]].split {
        wanted.push((fam_idx[0], Some(*rng.pick(&[Role::Enc, Role::Dec])), *rng.pick(&[0usize, 15]), None));
    }
    if cold {
        wanted.clear();
    }
    for (fam, want_role, pre, want_variant) in wanted {
        let f = &reg.families[fam];
        let vi = want_variant.unwrap_or_else(|| pick_variant(&mut rng, fam));
        let vs = &f.variants[vi];
        let role = if f.split { want_role.unwrap_or_else(|| *rng.pick(&[Role::Both, Role::Both, Role::Enc, Role::Dec])) } else { Role::Both };
        let ty = vs.ty(role).unwrap();
        let t = &reg.types[ty];
        if firstuse && t.detect {
            continue;
        }
        if !(t.send && t.sync) {
            println!("RESULT violation C15 type {} is not Send+Sync: it cannot be shared between threads", t.name);
            std::process::exit(1);
        }
        let kl = *rng.pick(&f.key_lens);
        let key = rng.bytes(kl);
        let sl = backing.alloc(0);
        let p = backing.ptr(sl);
        if !guard(|| unsafe { (t.new_from_slice)(p, &key) }).unwrap_or(false) {
            continue;
        }
        // Sometimes the main thread has already used the instance for a number of blocks before the workers
        // start (0, 1, or just below / at / above 16 and 32): state that an instance builds up after its Nth
        // block is then built while several threads are inside it.
        if pre > 0 {
            let dir = match t.role { Role::Enc => Dir::Enc, Role::Dec => Dir::Dec, Role::Both => *rng.pick(&[Dir::Enc, Dir::Dec]) };
            let data = rng.bytes(pre * t.block);
            let want = expect(fam, &key, dir, &data);
            match call_shape(t, p, dir, Shape::Blocks, &data) {
                Ok(got) if got == want => {}
                other => {
                    println!("RESULT violation C15 single-threaded pre-use of {} ({} blocks) disagrees with the model: {:?}", t.name, pre, other.err());
                    std::process::exit(1);
                }
            }
        }
        shared.push(SharedInst { ty, ptr: p, key, fam });
    }

    // per-thread programs. Each starts with a burst: every thread makes its first call on every
    // shared instance in the same direction, so that first uses of an instance overlap
    let burst_dirs: Vec<Vec<Dir>> = shared
        .iter()
        .map(|s| match reg.types[s.ty].role {
            Role::Enc => vec![Dir::Enc],
            Role::Dec => vec![Dir::Dec],
            Role::Both => {
                if rng.chance(1, 2) { vec![Dir::Dec, Dir::Enc] } else { vec![Dir::Enc, Dir::Dec] }
            }
        })
        .collect();
    let mut programs: Vec<Vec<TOp>> = Vec::new();
    if cold {
        for _ in 0..nt {
            let mut order = fam_idx.clone();
            for i in (1..order.len()).rev() {
                order.swap(i, rng.below(i as u64 + 1) as usize);
            }
            let mut prog = Vec::new();
            for _round in 0..nops.max(1) {
                for &fam in &order {
                    let f = &reg.families[fam];
                    let vi = pick_variant(&mut rng, fam);
                    let vs = &f.variants[vi];
                    let role = if f.split { *rng.pick(&[Role::Both, Role::Both, Role::Enc, Role::Dec]) } else { Role::Both };
                    let ty = vs.ty(role).unwrap();
                    let dir = match role { Role::Enc => Dir::Enc, Role::Dec => Dir::Dec, Role::Both => *rng.pick(&[Dir::Enc, Dir::Dec]) };
                    let kl = *rng.pick(&f.key_lens);
                    let key = rng.bytes(kl);
                    let shape = *rng.pick(&SHAPES);
                    let n = if shape.single() { 1 } else { rng.range(1, 3) as usize };
                    let data = rng.bytes(n * f.block);
                    prog.push(TOp::NewUse { ty, key, dir, shape, data, expect: Vec::new() });
                }
            }
            programs.push(prog);
        }
    }
    if storm {
        let dir_of = |rng: &mut Prng, t: &TypeInfo| match t.role {
            Role::Enc => Dir::Enc,
            Role::Dec => Dir::Dec,
            Role::Both => *rng.pick(&[Dir::Enc, Dir::Dec]),
        };
        let mut p0 = Vec::new();
        for _round in 0..6 {
            for (i, s) in shared.iter().enumerate() {
                let t = &reg.types[s.ty];
                let d = dir_of(&mut rng, t);
                let data = rng.bytes(8 * t.block);
                let e = expect(s.fam, &s.key, d, &data);
                p0.push(TOp::Shared { inst: i, dir: d, shape: Shape::Blocks, data, expect: e });
            }
        }
        programs.push(p0);
        for _ in 1..nt.max(2) {
            let mut prog = Vec::new();
            for _round in 0..(nops + 2) {
                for (i, s) in shared.iter().enumerate() {
                    let t = &reg.types[s.ty];
                    let d = dir_of(&mut rng, t);
                    let data = rng.bytes(2 * t.block);
                    let e = expect(s.fam, &s.key, d, &data);
                    if t.role == Role::Enc && rng.chance(1, 2) {
                        let f = &reg.families[s.fam];
                        let vs = f.variants.iter().find(|v| v.enc == Some(s.ty)).unwrap();
                        let (to, dir) = if rng.chance(1, 2) { (vs.both, *rng.pick(&[Dir::Enc, Dir::Dec])) } else { (vs.dec.unwrap(), Dir::Dec) };
                        let e = expect(s.fam, &s.key, dir, &data);
                        prog.push(TOp::ConvUse { inst: i, to, dir, data, expect: e });
                    } else if t.clone.is_some() && rng.chance(5, 6) {
                        prog.push(TOp::CloneUse { inst: i, dir: d, data, expect: e });
                    } else {
                        prog.push(TOp::Shared { inst: i, dir: d, shape: Shape::BlockB2b, data: data[..t.block].to_vec(), expect: e[..t.block].to_vec() });
                    }
                }
            }
            programs.push(prog);
        }
    }
    for _ in 0..(if storm || cold { 0 } else { nt }) {
        let mut prog = Vec::new();
        for (i, s) in shared.iter().enumerate() {
            let t = &reg.types[s.ty];
            for &d in &burst_dirs[i] {
                let shape = *rng.pick(&SHAPES);
                let n = if shape.single() { 1 } else { rng.range(1, 3) as usize };
                let data = rng.bytes(n * t.block);
                let e = expect(s.fam, &s.key, d, &data);
                prog.push(TOp::Shared { inst: i, dir: d, shape, data, expect: e });
            }
        }
        for _ in 0..nops {
            let kind = if shared.is_empty() { 0 } else { rng.weighted(&[if firstuse { 6 } else { 3 }, 5, 2, 2]) };
            let op = match kind {
                0 => {
                    let fam = *rng.pick(&fam_idx);
                    let f = &reg.families[fam];
                    let vi = pick_variant(&mut rng, fam);
                    let vs = &f.variants[vi];
                    let role = if f.split { *rng.pick(&[Role::Both, Role::Enc, Role::Dec]) } else { Role::Both };
                    let ty = vs.ty(role).unwrap();
                    let dir = match role { Role::Enc => Dir::Enc, Role::Dec => Dir::Dec, Role::Both => *rng.pick(&[Dir::Enc, Dir::Dec]) };
                    let kl = *rng.pick(&f.key_lens);
        let key = rng.bytes(kl);
                    let shape = *rng.pick(&SHAPES);
                    let n = if shape.single() { 1 } else { rng.range(0, 5) as usize };
                    let data = rng.bytes(n * f.block);
                    let e = expect(fam, &key, dir, &data);
                    TOp::NewUse { ty, key, dir, shape, data, expect: e }
                }
                1 => {
                    let i = rng.below(shared.len() as u64) as usize;
                    let s = &shared[i];
                    let t = &reg.types[s.ty];
                    let dir = match t.role { Role::Enc => Dir::Enc, Role::Dec => Dir::Dec, Role::Both => *rng.pick(&[Dir::Enc, Dir::Dec]) };
                    let shape = *rng.pick(&SHAPES);
                    let n = if shape.single() { 1 } else { rng.range(0, 5) as usize };
                    let data = rng.bytes(n * t.block);
                    let e = expect(s.fam, &s.key, dir, &data);
                    TOp::Shared { inst: i, dir, shape, data, expect: e }
                }
                2 => {
                    let i = rng.below(shared.len() as u64) as usize;
                    let s = &shared[i];
                    let t = &reg.types[s.ty];
                    if t.clone.is_none() {
                        continue;
                    }
                    let dir = match t.role { Role::Enc => Dir::Enc, Role::Dec => Dir::Dec, Role::Both => *rng.pick(&[Dir::Enc, Dir::Dec]) };
                    let data = rng.bytes(2 * t.block);
                    let e = expect(s.fam, &s.key, dir, &data);
                    TOp::CloneUse { inst: i, dir, data, expect: e }
                }
                _ => {
                    let encs: Vec<usize> = (0..shared.len()).filter(|&i| reg.types[shared[i].ty].role == Role::Enc).collect();
                    if encs.is_empty() {
                        continue;
                    }
                    let i = *rng.pick(&encs);
                    let s = &shared[i];
                    let f = &reg.families[s.fam];
                    let vs = f.variants.iter().find(|v| v.enc == Some(s.ty)).unwrap();
                    let (to, dir) = if rng.chance(1, 2) { (vs.both, *rng.pick(&[Dir::Enc, Dir::Dec])) } else { (vs.dec.unwrap(), Dir::Dec) };
                    let data = rng.bytes(2 * f.block);
                    let e = expect(s.fam, &s.key, dir, &data);
                    TOp::ConvUse { inst: i, to, dir, data, expect: e }
                }
            };
            prog.push(op);
        }
        programs.push(prog);
    }
    let programs_copy: Vec<Vec<TOp>> = if cold { programs.clone() } else { Vec::new() };

    let shared = Arc::new(shared);
    let mut handles = Vec::new();
    for (tid, prog) in programs.into_iter().enumerate() {
        let reg = reg.clone();
        let shared = shared.clone();
        handles.push(std::thread::spawn(move || {
            let mut slots = sim::mem::Slots::new();
            let slot = slots.alloc(0);
            let mut events: Vec<(u64, u64, usize, usize, &'static str, Result<(), String>, Option<Vec<u8>>)> = Vec::new();
            for (k, op) in prog.iter().enumerate() {
                let inv = STAMP.fetch_add(1, Ordering::Relaxed) as u64;
                let p = slots.ptr(slot);
                let mut stash: Option<Vec<u8>> = None;
                let res: Result<(), String> = (|| match op {
                    TOp::NewUse { ty, key, dir, shape, data, expect } => {
                        let t = &reg.types[*ty];
                        if !guard(|| unsafe { (t.new_from_slice)(p, key) })? {
                            return Err("constructor rejected key".into());
                        }
                        let r = call_shape(t, p, *dir, *shape, data);
                        guard(|| unsafe { (t.drop)(p) })?;
                        let got = r?;
                        if cold {
                            // judged by the main thread after the join
                            stash = Some(got);
                            return Ok(());
                        }
                        if &got != expect { Err(format!("{} {} {} got {} want {}", t.name, dir.name(), shape.name(), hex(&got), hex(expect))) } else { Ok(()) }
                    }
                    TOp::Shared { inst, dir, shape, data, expect } => {
                        let s = &shared[*inst];
                        let t = &reg.types[s.ty];
                        let got = call_shape(t, s.ptr, *dir, *shape, data)?;
                        if &got != expect { Err(format!("shared {} {} {} got {} want {}", t.name, dir.name(), shape.name(), hex(&got), hex(expect))) } else { Ok(()) }
                    }
                    TOp::CloneUse { inst, dir, data, expect } => {
                        let s = &shared[*inst];
                        let t = &reg.types[s.ty];
                        let f = t.clone.unwrap();
                        guard(|| unsafe { f(s.ptr, p) })?;
                        let r = call_shape(t, p, *dir, Shape::Blocks, data);
                        guard(|| unsafe { (t.drop)(p) })?;
                        let got = r?;
                        if &got != expect { Err(format!("clone of shared {} {} got {} want {}", t.name, dir.name(), hex(&got), hex(expect))) } else { Ok(()) }
                    }
                    TOp::ConvUse { inst, to, dir, data, expect } => {
                        let s = &shared[*inst];
                        let c = reg.conv(s.ty, *to).ok_or("no conversion")?;
                        let tt = &reg.types[*to];
                        guard(|| unsafe { (c.by_ref)(s.ptr, p) })?;
                        let r = call_shape(tt, p, *dir, Shape::BlocksInout, data);
                        guard(|| unsafe { (tt.drop)(p) })?;
                        let got = r?;
                        if &got != expect { Err(format!("conversion of shared to {} {} got {} want {}", tt.name, dir.name(), hex(&got), hex(expect))) } else { Ok(()) }
                    }
                })();
                let ret = STAMP.fetch_add(1, Ordering::Relaxed) as u64;
                events.push((inv, ret, tid, k, op.kind(), res, stash));
            }
            events
        }));
    }
    let mut all = Vec::new();
    for h in handles {
        match h.join() {
            Ok(e) => all.extend(e),
            Err(_) => {
                println!("RESULT violation C15 a worker thread panicked outside a guarded cipher call");
                std::process::exit(1);
            }
        }
    }
    all.sort_by_key(|e| e.0);
    if cold {
        // only now does the main thread evaluate the sequential model
        for e in all.iter_mut() {
            if let (Some(got), Some(TOp::NewUse { ty, key, dir, shape, data, .. })) = (e.6.take(), programs_copy.get(e.2).and_then(|p| p.get(e.3))) {
                let t = &reg.types[*ty];
                let fam = reg.family(t.family).unwrap();
                let want = expect(fam, key, *dir, data);
                if got != want {
                    e.5 = Err(format!("{} {} {} constructed and used for the first time in the process by a worker thread got {} want {}", t.name, dir.name(), shape.name(), hex(&got), hex(&want)));
                }
            }
        }
    }
    let _ = &expect;
    // the recorded history: merged invoke order; every response must equal the sequential model
    let mut d = Digest::default();
    let mut overlaps = 0u64;
    for (i, e) in all.iter().enumerate() {
        d.u64(e.2 as u64);
        d.u64(e.3 as u64);
        if i + 1 < all.len() && all[i + 1].0 < e.1 {
            overlaps += 1;
        }
    }
    let bad: Vec<_> = all.iter().filter(|e| e.5.is_err()).collect();
    let s = cpufeatures::sim::stats();
    println!(
        "HISTORY events={} overlapping_pairs={} order_digest={:016x} detect_calls={} cache_misses={} cache_hits={}",
        all.len(), overlaps, d.finish(), s.detect_calls, s.cache_misses, s.cache_hits
    );
    // drop shared instances
    for s in shared.iter() {
        let t = &reg.types[s.ty];
        let _ = guard(|| unsafe { (t.drop)(s.ptr) });
    }
    drop(backing);
    if let Some(e) = bad.first() {
        println!("RESULT violation C15 thread {} op {} ({}): {}", e.2, e.3, e.4, e.5.as_ref().err().unwrap());
        std::process::exit(1);
    }
    println!("RESULT ok");
}


/// `c16 [--grant] <variant::Type>...` — the residue question for types as another machine lays them out and
/// compiles them (the aarch64-only AES and Kuznyechik types above all). For every construction route: the byte
/// positions at which the live images of two different keys differ must all read zero after `drop_in_place`.
/// Every byte read here is a byte of storage the harness itself initialised before the value was written; a type
/// with padding makes the interpreter stop at the first padding byte (typed writes de-initialise padding in its
/// model) — the driver treats that as "not inspectable here", never as a finding.
fn c16(names: &[String]) {
    let reg = sim::registry::build();
    install_quiet_panic_hook();
    let mut names = names.to_vec();
    if names.first().map(|s| s == "--grant").unwrap_or(false) {
        cpufeatures::sim::set_miri_grant(true);
        names.remove(0);
    }
    // --limit N: inspect only the first N bytes of each image (a union's inactive tail is uninitialised storage in
    // the interpreter's model; the driver finds the initialised prefix by bisection with --probe runs)
    let mut limit = usize::MAX;
    let mut probe = false;
    while names.first().map(|s| s.starts_with("--")).unwrap_or(false) {
        match names.remove(0).as_str() {
            "--limit" => limit = names.remove(0).parse().unwrap_or_else(|_| die("--limit N")),
            "--probe" => probe = true,
            _ => die("c16 [--grant] [--limit N] [--probe] <type>..."),
        }
    }
    let mut rc = 0;
    let mut slots = sim::mem::Slots::new();
    let read = |p: *const u8, n: usize| -> Vec<u8> { (0..n.min(limit)).map(|i| unsafe { core::ptr::read_volatile(p.add(i)) }).collect() };
    if probe {
        // is the first `limit` bytes' worth of a freshly built instance readable?
        let t = reg.types[reg.type_by_name(&names[0]).unwrap_or_else(|| die("no such type"))].clone();
        let fam = &reg.families[reg.family(t.family).unwrap()];
        let s = slots.alloc(0);
        let p = slots.ptr(s);
        let key: Vec<u8> = (0..fam.key_size).map(|i| i as u8).collect();
        if !unsafe { (t.new_from_slice)(p, &key) } {
            die("probe: constructor refused the key");
        }
        // chunk by chunk, reporting progress: if the interpreter stops at an uninitialised byte, the last line
        // printed tells the driver how long the initialised prefix is
        println!("@c16-probe {} size={}", t.name, t.size);
        let mut off = 0;
        while off < t.size.min(limit) {
            let n = 16.min(t.size - off);
            let chunk = read(unsafe { (p as *const u8).add(off) }, n);
            std::hint::black_box(chunk.iter().fold(0u8, |a, b| a ^ b));
            off += n;
            println!("@c16-readable {}", off);
        }
        unsafe { (t.drop)(p) };
        std::process::exit(0);
    }
    for name in &names {
        let ty = match reg.type_by_name(name) {
            Some(t) => t,
            None => die(&format!("no type {}", name)),
        };
        let t = reg.types[ty].clone();
        if !t.zeroize {
            println!("@c16 {} - skipped (not built with zeroize)", t.name);
            continue;
        }
        let fam = &reg.families[reg.family(t.family).unwrap()];
        let mut klens = vec![fam.key_size];
        for k in [fam.key_lens[0], *fam.key_lens.last().unwrap()] {
            if !klens.contains(&k) {
                klens.push(k);
            }
        }
        // routes: (label, needs a source of which type (None: the type itself), by_ref / by_val / clone / clone_from)
        #[derive(Clone, Copy, PartialEq)]
        enum R {
            New,
            Clone,
            CloneFrom,
            ConvRef(usize),
            ConvVal(usize),
        }
        let mut routes: Vec<(String, R)> = vec![("new_from_slice".into(), R::New)];
        if t.clone.is_some() {
            routes.push(("clone".into(), R::Clone));
        }
        if t.clone_from.is_some() {
            routes.push(("clone_from".into(), R::CloneFrom));
        }
        for (ci, c) in reg.convs.iter().enumerate() {
            if c.to == ty {
                routes.push((format!("from_ref({})", reg.types[c.from].type_name), R::ConvRef(ci)));
                routes.push((format!("from({})", reg.types[c.from].type_name), R::ConvVal(ci)));
            }
        }
        for &klen in &klens {
            let ka: Vec<u8> = (0..klen).map(|i| (i as u8).wrapping_mul(37).wrapping_add(11)).collect();
            let kb: Vec<u8> = (0..klen).map(|i| (i as u8).wrapping_mul(91).wrapping_add(200)).collect();
            for (label, r) in &routes {
                for used in [false, true] {
                    // build at `p` by this route from `key`; returns false if the route does not apply
                    let build = |slots: &mut sim::mem::Slots, p: *mut u8, key: &[u8]| -> bool {
                        unsafe {
                            match *r {
                                R::New => (t.new_from_slice)(p, key),
                                R::Clone => {
                                    let s = slots.alloc(0);
                                    let sp = slots.ptr(s);
                                    if !(t.new_from_slice)(sp, key) {
                                        slots.free(s);
                                        return false;
                                    }
                                    (t.clone.unwrap())(sp as *const u8, p);
                                    (t.drop)(sp);
                                    slots.free(s);
                                    true
                                }
                                R::CloneFrom => {
                                    let other: Vec<u8> = key.iter().map(|b| b ^ 0xA7).collect();
                                    let s = slots.alloc(0);
                                    let sp = slots.ptr(s);
                                    if !(t.new_from_slice)(sp, key) || !(t.new_from_slice)(p, &other) {
                                        slots.free(s);
                                        return false;
                                    }
                                    (t.clone_from.unwrap())(sp as *const u8, p);
                                    (t.drop)(sp);
                                    slots.free(s);
                                    true
                                }
                                R::ConvRef(ci) | R::ConvVal(ci) => {
                                    let c = &reg.convs[ci];
                                    let st = &reg.types[c.from];
                                    let s = slots.alloc(0);
                                    let sp = slots.ptr(s);
                                    if !(st.new_from_slice)(sp, key) {
                                        slots.free(s);
                                        return false;
                                    }
                                    if matches!(*r, R::ConvRef(_)) {
                                        (c.by_ref)(sp as *const u8, p);
                                        (st.drop)(sp);
                                    } else {
                                        (c.by_val)(sp, p);
                                    }
                                    slots.free(s);
                                    true
                                }
                            }
                        }
                    };
                    let use_it = |p: *const u8| {
                        let bs = t.block;
                        let mut a: Vec<u8> = (0..3 * bs).map(|i| (i * 7 + 3) as u8).collect();
                        for (dir, shape, n) in [(Dir::Enc, Shape::Blocks, 3usize), (Dir::Dec, Shape::Block, 1)] {
                            if let Some(f) = t.call(dir) {
                                let pa = a.as_mut_ptr();
                                unsafe { f(p, shape, pa as *const u8, pa, n) };
                            }
                        }
                    };
                    println!("@c16-begin {} {} klen={} used={}", t.name, label, klen, used);
                    let mut images: Vec<Vec<u8>> = Vec::new();
                    let mut applicable = true;
                    for key in [&ka, &kb] {
                        let s = slots.alloc(0);
                        let p = slots.ptr(s);
                        if !build(&mut slots, p, key) {
                            applicable = false;
                            slots.free(s);
                            break;
                        }
                        if used {
                            use_it(p as *const u8);
                        }
                        images.push(read(p as *const u8, t.size));
                        unsafe { (t.drop)(p) };
                        slots.free(s);
                    }
                    if !applicable {
                        println!("@c16 {} {} klen={} used={} - route not applicable", t.name, label, klen, used);
                        continue;
                    }
                    let kdep: Vec<usize> = (0..images[0].len()).filter(|&i| images[0][i] != images[1][i]).collect();
                    let s = slots.alloc(0);
                    let p = slots.ptr(s);
                    build(&mut slots, p, &ka);
                    if used {
                        use_it(p as *const u8);
                    }
                    unsafe { (t.drop)(p) };
                    let after = read(p as *const u8, t.size);
                    slots.free(s);
                    let bad: Vec<usize> = kdep.iter().copied().filter(|&i| after[i] != 0).collect();
                    if bad.is_empty() {
                        println!("@c16 {} {} klen={} used={} ok key_dependent={}", t.name, label, klen, used, kdep.len());
                    } else {
                        println!(
                            "@c16 {} {} klen={} used={} RESIDUE {} of {} key-dependent bytes non-zero after drop, first offsets {:?}",
                            t.name, label, klen, used, bad.len(), kdep.len(), &bad[..bad.len().min(8)]
                        );
                        rc = 1;
                    }
                }
            }
        }
    }
    std::process::exit(rc);
}
