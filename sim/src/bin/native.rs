fn main() {
    let reg = sim::registry::build();
    for t in &reg.types {
        println!("{:40} fam={:14} role={:4} block={:3} key={:3} size={:5} align={:2} z={} det={} send={} sync={}",
            t.name, t.family, t.role.name(), t.block, t.key_size, t.size, t.align, t.zeroize, t.detect, t.send, t.sync);
    }
    println!("{} types, {} families, {} convs", reg.types.len(), reg.families.len(), reg.convs.len());
}
