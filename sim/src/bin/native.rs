//! sim-native: the native simulation engine (driver, workers, replay).
//!
//! exit codes: 0 = property held on everything explored, 1 = violation (with a
//! `VIOLATION property=<id> replay=<path>` line), 2 = harness error.

use serde_json::{Value, json};
use sim::engine::{Known, RunResult, execute_mode, load_replay, replay_json, run_batch, run_one_mode, shrink_with};
use sim::workload::Prop;
use sim::world::{Anchors, Op, RunCfg, Stats, Violation, install_quiet_panic_hook};
use std::collections::HashMap;
use std::io::Write;
use std::process::{Command, Stdio};
use std::time::{Duration, Instant};

// The photographing allocator (sim::spy) is installed here, in the binary, and not in the library: library code
// that drops a boxed instance must see `__rust_dealloc` as the opaque, free-like call it is for every user of the
// crates (that is what lets the optimiser delete ordinary stores into a block that is about to be freed).
#[global_allocator]
static GLOBAL: sim::spy::Spy = sim::spy::Spy;

fn arg<'a>(args: &'a [String], name: &str) -> Option<&'a str> {
    args.iter().position(|a| a == name).and_then(|i| args.get(i + 1)).map(|s| s.as_str())
}

fn die(msg: &str) -> ! {
    eprintln!("HARNESS-ERROR: {}", msg);
    std::process::exit(2)
}

fn main() {
    let args: Vec<String> = std::env::args().collect();
    if args.len() < 2 {
        die("usage: sim-native <check|worker|replay|registry|digest|c14|c16> ...");
    }
    match args[1].as_str() {
        "registry" => {
            let reg = sim::registry::build();
            for t in &reg.types {
                println!(
                    "{:40} fam={:14} role={:4} block={:3} key={:3} size={:5} align={:2} z={} det={} send={} sync={}",
                    t.name, t.family, t.role.name(), t.block, t.key_size, t.size, t.align, t.zeroize, t.detect, t.send, t.sync
                );
            }
            println!("{} types, {} families, {} convs", reg.types.len(), reg.families.len(), reg.convs.len());
        }
        "families" => {
            let reg = sim::registry::build();
            for f in &reg.families {
                println!("{} {} block={} split={} variants={}", f.name, f.krate, f.block, f.split, f.variants.iter().map(|v| v.variant).collect::<Vec<_>>().join(","));
            }
        }
        "worker" => worker(&args),
        "check" => check(&args),
        "replay" => replay(&args),
        "digest" => digest(&args),
        "export" => export(&args),
        "export-target-grid" => {
            // <family> <variant> <par> <out file>: a compact batch-shape grid for a foreign-target backend
            let reg = sim::registry::build();
            let (prop, seed) = common(&args);
            let fam = arg(&args, "--family").unwrap_or_else(|| die("--family"));
            let var = arg(&args, "--variant").unwrap_or_else(|| die("--variant"));
            let par: usize = arg(&args, "--par").and_then(|s| s.parse().ok()).unwrap_or_else(|| die("--par"));
            let out = arg(&args, "--out").unwrap_or_else(|| die("--out"));
            let c = if args.iter().any(|a| a == "--sweep") {
                sim::engine::target_sweep_case(&reg, fam, seed, var)
            } else if args.iter().any(|a| a == "--routes") {
                sim::engine::target_route_case(&reg, fam, var, false, seed)
            } else {
                sim::engine::target_grid_case(&reg, fam, var, par, false, seed, args.iter().any(|a| a == "--compact"), arg(&args, "--dir").and_then(sim::registry::Dir::parse))
            }
            .unwrap_or_else(|| die("no such family/variant"));
            let anchors = Anchors::compute_for(&reg, Some(&[fam]));
            install_quiet_panic_hook();
            let r = execute_mode(&reg, &anchors, &c.cfg, &c.ops, seed, None, &Known::default(), false);
            let j = json!({
                "format": "block-ciphers-sim-replay/1", "property": prop.name(), "engine": "native", "seed": seed,
                "environment": c.cfg.to_json(&reg), "ops": c.ops.iter().map(|o| o.to_json(&reg)).collect::<Vec<_>>(), "violation": Value::Null,
                "meta": {"grid_case": c.label, "native_h_portable": format!("{:016x}", r.h_portable), "native_violation": r.violation.as_ref().map(|v| v.to_json())},
            });
            std::fs::write(out, serde_json::to_string(&j).unwrap()).unwrap_or_else(|e| die(&format!("write {}: {}", out, e)));
            println!("{} {:016x}", out, r.h_portable);
        }
        "anchor-table" => {
            let reg = sim::registry::build();
            let order: Option<u64> = arg(&args, "--anchor-order").and_then(|s| s.parse().ok());
            let a = Anchors::compute_ordered(&reg, None, order);
            println!("{}", serde_json::to_string(&anchor_table_json(&reg, &a)).unwrap());
        }
        "cold-one" => cold_one(&args),
        "one" => one(&args),
        "grid" => grid(&args),
        "churn" => churn(&args),
        "exec-file" => exec_file(&args),
        "selftest-model" => selftest_model(),
        "cold-exec" => cold_exec(&args),
        "c14" => sim::bcrypt::main(&args),
        "digest-lists" => {
            // <dir>: execute every explicit operation list in the directory, print name, portable digest, outcome
            let dir = args.get(2).map(|s| s.as_str()).unwrap_or_else(|| die("digest-lists <dir>"));
            let reg = sim::registry::build();
            let anchors = Anchors::compute(&reg);
            install_quiet_panic_hook();
            let known = Known::default();
            let mut names: Vec<String> = std::fs::read_dir(dir).unwrap_or_else(|e| die(&format!("{}: {}", dir, e))).filter_map(|e| e.ok()).map(|e| e.file_name().to_string_lossy().to_string()).filter(|n| n.ends_with(".json")).collect();
            names.sort();
            let (from, step): (usize, usize) = (arg(&args, "--offset").and_then(|s| s.parse().ok()).unwrap_or(0), arg(&args, "--stride").and_then(|s| s.parse().ok()).unwrap_or(1));
            for n in names.iter().skip(from).step_by(step.max(1)) {
                let text = std::fs::read_to_string(format!("{}/{}", dir, n)).unwrap_or_else(|e| die(&format!("{}: {}", n, e)));
                let v: Value = serde_json::from_str(&text).unwrap_or_else(|e| die(&format!("{}: {}", n, e)));
                let l = load_replay(&reg, &v).unwrap_or_else(|e| die(&e));
                let r = execute_mode(&reg, &anchors, &l.cfg, &l.ops, l.seed, None, &known, false);
                println!("{} {:016x} steps={} viol={}", n, r.h_portable, r.stats.steps, r.violation.as_ref().map(|v| v.signature()).unwrap_or_else(|| "-".into()));
            }
        }
        "c14-export" => {
            let seed: u64 = arg(&args, "--seed").and_then(|s| s.parse().ok()).unwrap_or(20261003);
            let count: u64 = arg(&args, "--count").and_then(|s| s.parse().ok()).unwrap_or(8);
            let max_ops: usize = arg(&args, "--max-ops").and_then(|s| s.parse().ok()).unwrap_or(8);
            let out = arg(&args, "--out").unwrap_or_else(|| die("--out <dir>"));
            std::fs::create_dir_all(out).unwrap_or_else(|e| die(&format!("{}: {}", out, e)));
            for (i, l) in sim::bcrypt::export_lists(seed, count, max_ops).iter().enumerate() {
                std::fs::write(format!("{}/C14-{}-{}.json", out, seed, i), serde_json::to_string(l).unwrap()).unwrap_or_else(|e| die(&format!("write: {}", e)));
            }
        }
        "c16" => sim::residue::main(&args),
        _ => die("unknown subcommand"),
    }
}

fn common(args: &[String]) -> (Prop, u64) {
    let prop = Prop::parse(arg(args, "--prop").unwrap_or("")).unwrap_or_else(|| die("--prop C03|C04|C12|C15"));
    let seed: u64 = arg(args, "--seed").and_then(|s| s.parse().ok()).unwrap_or(20261003);
    (prop, seed)
}

fn worker(args: &[String]) {
    // anchors first: nothing else has run in this process yet
    let reg = sim::registry::build();
    let order: Option<u64> = arg(args, "--anchor-order").and_then(|s| s.parse().ok());
    let anchors = Anchors::compute_ordered(&reg, None, order);
    install_quiet_panic_hook();
    let (prop, seed) = common(args);
    let total: u64 = arg(args, "--total").and_then(|s| s.parse().ok()).unwrap_or(1000);
    let stride: u64 = arg(args, "--stride").and_then(|s| s.parse().ok()).unwrap_or(1);
    let offset: u64 = arg(args, "--offset").and_then(|s| s.parse().ok()).unwrap_or(0);
    let budget: Option<u64> = arg(args, "--budget-s").and_then(|s| s.parse().ok());
    let replay_dir = arg(args, "--replay-dir").unwrap_or("/verif/replays");
    let known = Known::load(arg(args, "--known").unwrap_or("/verif/known_findings.json"));
    let digest_file = arg(args, "--digest-file");
    let deadline = budget.map(|s| Instant::now() + Duration::from_secs(s));
    // breadcrumb: which run is executing, so that the driver can re-run it if this process dies inside cipher code
    let mut crumb = arg(args, "--breadcrumb").and_then(|p| std::fs::OpenOptions::new().create(true).write(true).truncate(true).open(p).ok());
    let mut on_run = |i: u64, s: u64| {
        if let Some(f) = crumb.as_mut() {
            use std::io::{Seek, SeekFrom};
            let _ = f.seek(SeekFrom::Start(0));
            let _ = f.write_all(format!("{:020} {:020}\n", i, s).as_bytes());
        }
    };
    let exe = std::env::current_exe().unwrap();
    let cand = format!("{}/fresh-cand-{}-{}.json", arg(args, "--tmp").unwrap_or("/verif/.build/tmp"), prop.name(), offset);
    let known_path = arg(args, "--known").unwrap_or("/verif/known_findings.json").to_string();
    let mut fresh_exec = |cfg: &RunCfg, ops: &[Op], rs: u64| -> Option<Violation> {
        let dummy = Violation { prop: "C15", class: String::new(), step: 0, family: String::new(), variant: String::new(), detail: String::new(), expected: vec![], got: vec![], also: vec![] };
        let rj = replay_json(&reg, prop.name(), rs, cfg, ops, &dummy, json!({}));
        std::fs::write(&cand, serde_json::to_string(&rj).unwrap()).ok()?;
        let a: Vec<String> = ["exec-file", &cand, "--known", &known_path, "--prop", prop.name()].iter().map(|s| s.to_string()).collect();
        let j = spawn_json(&exe, &a).ok()?;
        Violation::from_json(&j["violation"])
    };
    let b = run_batch(&reg, &anchors, prop, seed, total, stride, offset, &known, replay_dir, deadline, 3, &mut on_run, &mut fresh_exec);
    let _ = std::fs::remove_file(&cand);
    let mut j = b.to_json();
    if let Some(p) = digest_file {
        let mut f = std::fs::File::create(p).unwrap_or_else(|_| die("cannot write digest file"));
        for d in &b.digests {
            f.write_all(&d.to_le_bytes()).unwrap();
        }
        let mut f = std::fs::File::create(format!("{}.il", p)).unwrap();
        for d in &b.interleavings {
            f.write_all(&d.to_le_bytes()).unwrap();
        }
        j["digests"] = json!([]);
        j["interleavings"] = json!([]);
    }
    j["anchor_digest"] = json!(format!("{:016x}", anchors.digest));
    j["anchor_table"] = anchor_table_json(&reg, &anchors);
    j["anchor_order"] = json!(order);
    j["build"] = json!(sim::engine::build_label());
    j["anchors"] = json!(anchors.entries.len());
    let s = cpufeatures::sim::stats();
    j["seam"] = json!({"detect_calls": s.detect_calls, "masked_decisions": s.masked_decisions, "cache_hits": s.cache_hits,
        "cache_misses": s.cache_misses, "token_reads": s.token_reads, "stale_token_reads": s.stale_token_reads});
    println!("{}", serde_json::to_string(&j).unwrap());
}

fn anchor_table_json(reg: &sim::registry::Registry, a: &Anchors) -> Value {
    let mut m = serde_json::Map::new();
    for e in &a.entries {
        let mut d = sim::prng::Digest::default();
        d.bytes(&e.output);
        m.insert(format!("{}|{}", reg.types[e.ty].name, e.dir.name()), json!(format!("{:016x}", d.finish())));
    }
    Value::Object(m)
}

fn read_u64s(path: &str) -> Vec<u64> {
    let b = std::fs::read(path).unwrap_or_default();
    b.chunks_exact(8).map(|c| u64::from_le_bytes(c.try_into().unwrap())).collect()
}

fn check(args: &[String]) {
    let t0 = Instant::now();
    let (prop, seed) = common(args);
    let tier = arg(args, "--tier").unwrap_or("quick").to_string();
    let workers: u64 = arg(args, "--workers").and_then(|s| s.parse().ok()).unwrap_or(16);
    let total: u64 = arg(args, "--total").and_then(|s| s.parse().ok()).unwrap_or(if tier == "quick" { 200_000 } else { 20_000_000 });
    let budget: u64 = arg(args, "--budget-s").and_then(|s| s.parse().ok()).unwrap_or(if tier == "quick" { 120 } else { 1500 });
    let evidence = arg(args, "--evidence").map(|s| s.to_string()).unwrap_or(format!("/verif/evidence/{}.json", prop.name()));
    let replay_dir = arg(args, "--replay-dir").unwrap_or("/verif/replays").to_string();
    let known_path = arg(args, "--known").unwrap_or("/verif/known_findings.json").to_string();
    let tmp = arg(args, "--tmp").map(|s| s.to_string()).unwrap_or_else(|| "/verif/.build/tmp".to_string());
    let _ = std::fs::create_dir_all(&tmp);
    let exe = std::env::current_exe().unwrap();
    println!("sim-native check property={} tier={} VERIF_SEED={} runs={} workers={}", prop.name(), tier, seed, total, workers);
    // a second build of the same simulator (host SIMD target features enabled at compile time): a quarter of the
    // workers run it, so that code selected by `cfg(target_feature = ..)` meets every oracle too
    let alt_exe: Option<std::path::PathBuf> = arg(args, "--alt-bin").map(std::path::PathBuf::from).filter(|p| p.is_file());
    let mut alt_runs = 0u64;
    let mut kids = Vec::new();
    for w in 0..workers {
        let _ = std::fs::remove_file(format!("{}/{}-crumb-{}", tmp, prop.name(), w));
        let df = format!("{}/{}-digests-{}.bin", tmp, prop.name(), w);
        let use_alt = alt_exe.is_some() && workers >= 4 && w % 4 == 3;
        let wexe = if use_alt { alt_exe.clone().unwrap() } else { exe.clone() };
        let c = Command::new(&wexe)
            .env("VERIF_BUILD_LABEL", if use_alt { "tf" } else { "" })
            .args(["worker", "--prop", prop.name(), "--seed", &seed.to_string(), "--total", &total.to_string()])
            .args(["--stride", &workers.to_string(), "--offset", &w.to_string(), "--budget-s", &budget.to_string()])
            .args(["--replay-dir", &replay_dir, "--known", &known_path, "--digest-file", &df])
            .args(["--breadcrumb", &format!("{}/{}-crumb-{}", tmp, prop.name(), w), "--tmp", &tmp])
            .args(if w == 0 { vec![] } else { vec!["--anchor-order".to_string(), (seed ^ (w << 32)).to_string()] })
            .stdout(Stdio::piped())
            .stderr(Stdio::piped())
            .spawn()
            .unwrap_or_else(|e| die(&format!("spawn worker: {}", e)));
        kids.push((w, df, c, wexe));
    }
    let mut stats = Stats::default();
    let mut runs = 0u64;
    let mut nontrivial = 0u64;
    let mut violations: Vec<Value> = Vec::new();
    let mut known_hits: HashMap<String, String> = HashMap::new();
    let mut notes: Vec<String> = Vec::new();
    let mut samples: Vec<Value> = Vec::new();
    let mut herr: Vec<String> = Vec::new();
    let mut anchor_digests: Vec<String> = Vec::new();
    let mut anchor_tables: Vec<(Option<u64>, serde_json::Map<String, Value>)> = Vec::new();
    let mut alt_anchor_digests: Vec<String> = Vec::new();
    let mut alt_anchor_tables: Vec<(Option<u64>, serde_json::Map<String, Value>)> = Vec::new();
    let mut digests: Vec<u64> = Vec::new();
    let mut inter: Vec<u64> = Vec::new();
    let mut seam = json!({});
    let mut seam_tot: HashMap<String, u64> = HashMap::new();
    let mut portable_xor = 0u64;
    for (w, df, c, wexe) in kids {
        let out = c.wait_with_output().unwrap_or_else(|e| die(&format!("wait worker: {}", e)));
        let so = String::from_utf8_lossy(&out.stdout).to_string();
        let line = so.lines().last().unwrap_or("");
        let j: Value = match serde_json::from_str(line) {
            Ok(j) if out.status.success() => j,
            _ => {
                // the worker died (signal / abort inside cipher code): that is an outcome. Find the run it was
                // executing, re-run it traced in a child, and report the death with the history that leads to it
                let crumb = std::fs::read_to_string(format!("{}/{}-crumb-{}", tmp, prop.name(), w)).unwrap_or_default();
                let mut it = crumb.split_whitespace();
                let (ri, rs) = (it.next().and_then(|x| x.parse::<u64>().ok()), it.next().and_then(|x| x.parse::<u64>().ok()));
                let tail = String::from_utf8_lossy(&out.stderr).lines().rev().take(3).collect::<Vec<_>>().join(" | ");
                match (ri, rs) {
                    (Some(ri), Some(rs)) => match died_run(&wexe, prop, rs, ri, seed, &replay_dir, &known_path, &tmp, &tail) {
                        Some(v) => violations.push(v),
                        None => herr.push(format!("worker {} ended abnormally in run {} (seed {}) but the run does not die when repeated alone: status {:?}; {}", w, ri, rs, out.status, tail)),
                    },
                    _ => {
                        // no run had started: the worker died while computing its pristine anchor table (one instance
                        // of every type constructed, used, dropped). Does a fresh process of that build do so again?
                        let order = if w == 0 { None } else { Some(seed ^ (w << 32)) };
                        let mut a = vec!["anchor-table".to_string()];
                        if let Some(o) = order {
                            a.push("--anchor-order".into());
                            a.push(o.to_string());
                        }
                        let label = if wexe == exe { "" } else { "tf" };
                        let again = Command::new(&wexe).env("VERIF_BUILD_LABEL", label).args(&a).stdout(Stdio::null()).stderr(Stdio::null()).status();
                        match again {
                            Ok(st) if !st.success() => {
                                let vj = json!({"property": "C15", "class": "died-at-start", "step": 0, "family": "", "variant": "",
                                    "detail": format!("a freshly started process{} dies ({:?}) while constructing, using and dropping one instance of every type in turn (anchor order {:?}): some constructor, call or drop damages memory it does not own", if label.is_empty() { "" } else { " of the target-feature build" }, st, order),
                                    "expected": "", "got": "", "also_violates": ["C04", "C12"]});
                                let path = format!("{}/{}-died-at-start-{}-{}.json", replay_dir, prop.name(), seed, w);
                                let _ = std::fs::create_dir_all(&replay_dir);
                                let rj = json!({"format": "block-ciphers-sim-replay/1", "property": prop.name(), "engine": "native", "build": label, "died_at_start": true, "anchor_order": order, "violation": vj});
                                let _ = std::fs::write(&path, serde_json::to_string_pretty(&rj).unwrap());
                                violations.push(json!({"replay": path, "violation": vj}));
                            }
                            _ => herr.push(format!("worker {} ended abnormally before its first run and a fresh process does not: status {:?}; stderr tail: {}", w, out.status, tail)),
                        }
                    }
                }
                continue;
            }
        };
        runs += j["runs"].as_u64().unwrap_or(0);
        nontrivial += j["nontrivial"].as_u64().unwrap_or(0);
        stats.add(&Stats::from_json(&j["stats"]));
        for v in j["violations"].as_array().cloned().unwrap_or_default() {
            violations.push(v);
        }
        for k in j["known_hits"].as_array().cloned().unwrap_or_default() {
            known_hits.insert(k[0].as_str().unwrap_or("").to_string(), k[1].as_str().unwrap_or("").to_string());
        }
        for n in j["notes"].as_array().cloned().unwrap_or_default() {
            if notes.len() < 12 {
                notes.push(n.as_str().unwrap_or("").to_string());
            }
        }
        for s in j["samples"].as_array().cloned().unwrap_or_default() {
            if samples.len() < 3 {
                samples.push(s);
            }
        }
        for e in j["harness_errors"].as_array().cloned().unwrap_or_default() {
            herr.push(e.as_str().unwrap_or("").to_string());
        }
        let wbuild = j["build"].as_str().unwrap_or("").to_string();
        if wbuild.is_empty() {
            anchor_digests.push(j["anchor_digest"].as_str().unwrap_or("").to_string());
            if let Some(t) = j["anchor_table"].as_object() {
                anchor_tables.push((j["anchor_order"].as_u64(), t.clone()));
            }
        } else {
            alt_runs += j["runs"].as_u64().unwrap_or(0);
            alt_anchor_digests.push(j["anchor_digest"].as_str().unwrap_or("").to_string());
            if let Some(t) = j["anchor_table"].as_object() {
                alt_anchor_tables.push((j["anchor_order"].as_u64(), t.clone()));
            }
        }
        portable_xor ^= u64::from_str_radix(j["portable_xor"].as_str().unwrap_or("0"), 16).unwrap_or(0);
        if let Some(o) = j["seam"].as_object() {
            for (k, v) in o {
                *seam_tot.entry(k.clone()).or_insert(0) += v.as_u64().unwrap_or(0);
            }
        }
        digests.extend(read_u64s(&df));
        inter.extend(read_u64s(&format!("{}.il", df)));
        let _ = std::fs::remove_file(&df);
        let _ = std::fs::remove_file(format!("{}.il", df));
        seam = json!(seam_tot);
    }
    // grid phase: the small finite dimensions enumerated completely (see engine::grid_cases); runs in a child
    // process so that a crash inside cipher code is an attributable outcome, not the end of the driver
    let mut grid_json = Value::Null;
    {
        let tg = Instant::now();
        let out = Command::new(&exe)
            .args(["grid", "--prop", prop.name(), "--seed", &seed.to_string(), "--known", &known_path, "--replay-dir", &replay_dir])
            .stdout(Stdio::piped())
            .stderr(Stdio::piped())
            .output()
            .unwrap_or_else(|e| die(&format!("spawn grid: {}", e)));
        let so = String::from_utf8_lossy(&out.stdout).to_string();
        let done: Option<Value> = so.lines().find_map(|l| l.strip_prefix("@grid-done ")).and_then(|x| serde_json::from_str(x).ok());
        match done {
            Some(j) if out.status.success() => {
                runs += j["cases"].as_u64().unwrap_or(0);
                stats.add(&Stats::from_json(&j["stats"]));
                for v in j["violations"].as_array().cloned().unwrap_or_default() {
                    violations.push(v);
                }
                for k in j["known_hits"].as_array().cloned().unwrap_or_default() {
                    known_hits.insert(k[0].as_str().unwrap_or("").to_string(), k[1].as_str().unwrap_or("").to_string());
                }
                for e in j["harness_errors"].as_array().cloned().unwrap_or_default() {
                    herr.push(e.as_str().unwrap_or("").to_string());
                }
                grid_json = json!({
                    "what": "complete enumeration of the small finite dimensions through the same World and oracles: every family x all linked build variants at once x both detection arms (where a variant goes through detection) x every role x {key lengths: all accepted ones for C03, shortest and longest otherwise} x every call shape x batch-length classes {0,1,2,par-1,par,par+1,2par+1} x placement classes {in place, in place at the arena end, out above with a gap, out below touching, out at the arena end}, half of the cases between inaccessible pages; for C12 additionally every construction route up to depth 3 (new / new_from_slice, clone, clone of clone, From<Enc> and From<&Enc> to either target, clone of converted) with the source dropped first or kept, relocation before use. Keys and block contents are sampled",
                    "cases": j["cases"], "operations_applied": j["operations_applied"], "cipher_calls": j["cipher_calls"], "wall_s": tg.elapsed().as_secs_f64(),
                });
            }
            _ => {
                // the grid child died: the last announced case is the one that kills it
                let last = so.lines().rev().find_map(|l| l.strip_prefix("@case ")).and_then(|x| x.trim().parse::<usize>().ok());
                let tail = String::from_utf8_lossy(&out.stderr).lines().rev().take(3).collect::<Vec<_>>().join(" | ");
                let reg = sim::registry::build();
                let cases = sim::engine::grid_cases(&reg, prop, seed);
                match last.and_then(|ci| cases.get(ci).map(|c| (ci, c))) {
                    Some((ci, c)) => match died_list(&exe, prop, seed ^ ci as u64, &c.cfg, &c.ops, &format!("{}/{}-grid-died-{}-{}", replay_dir, prop.name(), seed, ci), &known_path, &tmp, &format!("grid case {}: {}", c.label, tail)) {
                        Some(v) => violations.push(v),
                        None => herr.push(format!("grid child ended abnormally in case {} ({}) but that case does not die when repeated alone: {:?}; {}", ci, c.label, out.status, tail)),
                    },
                    None => herr.push(format!("grid child ended abnormally: {:?}; {}", out.status, tail)),
                }
            }
        }
    }
    // churn phase (C15): volume and key repetition (see engine::churn_type), one child per family group
    let mut churn_json = Value::Null;
    if prop == Prop::C15 {
        let tc = Instant::now();
        let scale = if tier == "quick" { 1 } else { 8 };
        let kids: Vec<_> = (0..workers)
            .map(|w| {
                Command::new(&exe)
                    .args(["churn", "--prop", prop.name(), "--seed", &seed.to_string(), "--stride", &workers.to_string(), "--offset", &w.to_string(), "--scale", &scale.to_string()])
                    .stdout(Stdio::piped())
                    .stderr(Stdio::piped())
                    .spawn()
                    .unwrap_or_else(|e| die(&format!("spawn churn: {}", e)))
            })
            .collect();
        let (mut ct, mut cc, mut cp) = (0u64, 0u64, 0u64);
        for (w, k) in kids.into_iter().enumerate() {
            let out = k.wait_with_output().unwrap_or_else(|e| die(&format!("wait churn: {}", e)));
            let so = String::from_utf8_lossy(&out.stdout).to_string();
            let done: Option<Value> = so.lines().find_map(|l| l.strip_prefix("@churn-done ")).and_then(|x| serde_json::from_str(x).ok());
            match done {
                Some(j) if out.status.success() => {
                    ct += j["types"].as_u64().unwrap_or(0);
                    cc += j["constructions"].as_u64().unwrap_or(0);
                    cp += j["checkpoints"].as_u64().unwrap_or(0);
                    for v in j["violations"].as_array().cloned().unwrap_or_default() {
                        let path = format!("{}/C15-churn-{}-{}.json", replay_dir, seed, v["type"].as_str().unwrap_or("x").replace("::", "-").replace(['<', '>', ',', ' '], "_"));
                        let _ = std::fs::create_dir_all(&replay_dir);
                        let rj = json!({"format": "block-ciphers-sim-replay/1", "property": "C15", "engine": "native", "seed": seed,
                            "churn": {"type": v["type"], "n": v["n"]}, "violation": v["violation"]});
                        let _ = std::fs::write(&path, serde_json::to_string_pretty(&rj).unwrap());
                        violations.push(json!({"replay": path, "violation": v["violation"]}));
                    }
                }
                _ => {
                    let last = so.lines().rev().find_map(|l| l.strip_prefix("@type ")).unwrap_or("?").to_string();
                    herr.push(format!("churn worker {} ended abnormally while churning {}: {:?}", w, last, out.status));
                }
            }
        }
        runs += ct;
        churn_json = json!({"what": "per family (default build and one other variant): one long-lived instance of key A, then thousands of constructions and drops cycling over five other keys (two random, three related to A); at checkpoints (every 251st construction, around 256/1024/4096/65536, at the end) the long-lived instance and a fresh instance of A must return what A returned at the start",
            "types": ct, "constructions": cc, "checkpoints": cp, "wall_s": tc.elapsed().as_secs_f64()});
    }
    // cold-start phase (C15, C12): one history per fresh process, oracles deferred
    let cold_total: u64 = arg(args, "--cold").and_then(|s| s.parse().ok()).unwrap_or(match (prop, tier.as_str()) {
        (Prop::C15, "quick") | (Prop::C12, "quick") => 3000,
        (Prop::C15, _) | (Prop::C12, _) => 200_000,
        _ => 0,
    });
    let mut cold_json = Value::Null;
    if cold_total > 0 {
        let c = cold_phase(prop, seed, cold_total, workers, &known_path, &replay_dir, &tmp);
        cold_json = json!({
            "what": "one seeded history (<= 24 operations) as the first thing a freshly started process does; no reference is computed until the history has ended, so process-global state is cold when the history's own constructions, conversions and calls run; the recorded calls are then judged twice: by the process itself and, as a second opinion, by the driver process whose global state has another history",
            "processes": c.runs, "nontrivial": c.nontrivial, "distinct_nontrivial": c.digests.len(),
            "steps": c.stats.steps, "cipher_calls": c.stats.cipher_calls, "conversions": c.stats.op_conv_ref + c.stats.op_conv_val, "clones": c.stats.op_clone,
            "wall_s": c.wall,
        });
        runs += c.runs;
        nontrivial += c.nontrivial;
        stats.add(&c.stats);
        digests.extend(c.digests);
        violations.extend(c.violations);
        herr.extend(c.herr);
        for n in c.notes { if notes.len() < 12 { notes.push(n); } }
    }
    digests.sort_unstable();
    digests.dedup();
    inter.sort_unstable();
    inter.dedup();
    anchor_digests.sort();
    anchor_digests.dedup();
    if anchor_digests.len() > 1 {
        // Pristine tables differ between processes that computed them in different orders: what a fresh
        // instance returns depends on what ran earlier in the process. Name the entry and the two orders.
        let mut reported = false;
        if let Some((o0, t0)) = anchor_tables.first() {
            'outer: for (o1, t1) in anchor_tables.iter().skip(1) {
                for (k, v) in t0 {
                    if t1.get(k).map(|x| x != v).unwrap_or(false) {
                        let vj = json!({"property": "C15", "class": "cross-process-anchor", "step": 0, "family": "", "variant": "",
                            "detail": format!("{}: the value a freshly constructed instance returns at process start depends on the order in which other types were used before it in the process (anchor orders {:?} vs {:?})", k, o0, o1),
                            "expected": "", "got": "", "also_violates": []});
                        let path = format!("{}/{}-anchor-order-{}.json", replay_dir, prop.name(), seed);
                        let _ = std::fs::create_dir_all(&replay_dir);
                        let rj = json!({"format": "block-ciphers-sim-replay/1", "property": "C15", "engine": "native", "anchor_orders": [o0, o1], "entry": k, "violation": vj});
                        let _ = std::fs::write(&path, serde_json::to_string_pretty(&rj).unwrap());
                        if prop == Prop::C15 {
                            violations.push(json!({"replay": path, "violation": vj}));
                        } else if notes.len() < 12 {
                            notes.push(format!("note: C15-class divergence (pristine anchor tables differ between processes with different type orders: {}), not this check's property", k));
                        }
                        reported = true;
                        break 'outer;
                    }
                }
            }
        }
        if !reported {
            herr.push(format!("anchor tables differ between worker processes: {:?}", anchor_digests));
        }
    }
    // the same tables in the other build of the simulator: among themselves (orders), and against the default build
    alt_anchor_digests.sort();
    alt_anchor_digests.dedup();
    if alt_anchor_digests.len() > 1 {
        // the same order dependence, seen among the processes of the target-feature build
        let mut reported = false;
        if let Some((o0, t0)) = alt_anchor_tables.first() {
            'outer_tf: for (o1, t1) in alt_anchor_tables.iter().skip(1) {
                for (k, v) in t0 {
                    if t1.get(k).map(|x| x != v).unwrap_or(false) {
                        reported = true;
                        if anchor_digests.len() <= 1 {
                            let vj = json!({"property": "C15", "class": "cross-process-anchor", "step": 0, "family": "", "variant": "",
                                "detail": format!("{} (target-feature build): the value a freshly constructed instance returns at process start depends on the order in which other types were used before it in the process (anchor orders {:?} vs {:?})", k, o0, o1),
                                "expected": "", "got": "", "also_violates": []});
                            let path = format!("{}/{}-anchor-order-tf-{}.json", replay_dir, prop.name(), seed);
                            let _ = std::fs::create_dir_all(&replay_dir);
                            let rj = json!({"format": "block-ciphers-sim-replay/1", "property": "C15", "engine": "native", "build": "tf", "anchor_orders": [o0, o1], "entry": k, "violation": vj});
                            let _ = std::fs::write(&path, serde_json::to_string_pretty(&rj).unwrap());
                            if prop == Prop::C15 {
                                violations.push(json!({"replay": path, "violation": vj}));
                            } else if notes.len() < 12 {
                                notes.push(format!("note: C15-class divergence (pristine anchor tables of the target-feature build differ between processes with different type orders: {}), not this check's property", k));
                            }
                        }
                        break 'outer_tf;
                    }
                }
            }
        }
        if !reported {
            herr.push(format!("anchor tables differ between worker processes of the target-feature build: {:?}", alt_anchor_digests));
        }
    }
    if let (Some((_, t0)), Some((_, t1)), true) = (anchor_tables.first(), alt_anchor_tables.first(), anchor_digests.len() <= 1 && alt_anchor_digests.len() <= 1) {
        for (k, v) in t0 {
            if t1.get(k).map(|x| x != v).unwrap_or(false) {
                let vj = json!({"property": "C03", "class": "cross-build-anchor", "step": 0, "family": "", "variant": "",
                    "detail": format!("{}: a freshly constructed instance returns other bytes (fixed key and input) when the crate is compiled with the host's SIMD target features enabled (-C target-feature) than in the default build", k),
                    "expected": "", "got": "", "also_violates": []});
                let path = format!("{}/{}-cross-build-anchor-{}.json", replay_dir, prop.name(), seed);
                let _ = std::fs::create_dir_all(&replay_dir);
                let rj = json!({"format": "block-ciphers-sim-replay/1", "property": "C03", "engine": "cross-build", "entry": k, "violation": vj});
                let _ = std::fs::write(&path, serde_json::to_string_pretty(&rj).unwrap());
                if prop == Prop::C03 {
                    violations.push(json!({"replay": path, "violation": vj}));
                } else if notes.len() < 12 {
                    notes.push(format!("note: C03-class divergence (anchor {} differs between the default and the target-feature build), not this check's property", k));
                }
                break;
            }
        }
    }
    let wall = t0.elapsed().as_secs_f64();
    let reg = sim::registry::build();
    let variants: Vec<String> = {
        let mut v: Vec<String> = reg.types.iter().map(|t| t.variant.to_string()).collect();
        v.sort();
        v.dedup();
        v
    };
    let sj = stats.to_json();
    let mut faults = serde_json::Map::new();
    let mut probes = serde_json::Map::new();
    let mut opsj = serde_json::Map::new();
    for (k, v) in sj.as_object().unwrap() {
        if let Some(n) = k.strip_prefix("f_") {
            faults.insert(n.to_string(), v.clone());
        } else if let Some(n) = k.strip_prefix("r_") {
            probes.insert(n.to_string(), v.clone());
        } else {
            opsj.insert(k.clone(), v.clone());
        }
    }
    let ev = json!({
        "property_id": prop.name(),
        "tier": tier,
        "seed": seed,
        "level": "exploration",
        "coverage": {
            "evaluations": runs,
            "distinct_nontrivial": digests.len(),
            "rule": "one evaluation = one simulated run: a seeded swarm configuration (families, enabled build variants, mask_aes, tasks, op mix) and a seeded history of 8..96 operations applied to every enabled realisation with all oracles evaluated after each step. A run is non-trivial if at least one fault took effect (mask_aes with a detection-routed instance, relocate/drop/drop-source followed by use, epoch flip with live instances, a non-default buffer placement) and it created at least two instances; distinct = distinct full-history digests (H_all) among those, counted with a set",
            "samples": samples,
            "exhaustive": false,
            "nontrivial_runs": nontrivial,
            "steps_total": stats.steps,
            "operations": Value::Object(opsj),
            "faults_fired": Value::Object(faults),
            "reach_probes": Value::Object(probes),
            "interleavings": {"measure": "distinct sequences of (task id per applied operation) over runs", "distinct": inter.len()},
            "seam_counters": seam,
            "runs_per_hour": if wall > 0.0 { (runs as f64 / wall * 3600.0) as u64 } else { 0 },
            "seeds_per_hour": if wall > 0.0 { (runs as f64 / wall * 3600.0) as u64 } else { 0 },
            "simulated_time": "n/a - the code under test reads no clock; progress is counted in scheduler steps",
            "variants_linked": variants,
            "components": {
                "real": ["every crate under /repo compiled from the working tree in each listed build variant", "cipher", "inout", "hybrid-array", "crypto-common", "zeroize"],
                "vendored_with_seam": ["cpufeatures 0.2.17 (/verif/seam/cpufeatures, see SEAM.diff)"],
                "stub": ["none natively (CPUID is real, filtered by the mask_aes fault)"]
            },
            "h_portable_xor": format!("{:016x}", portable_xor),
            "cold_start": cold_json,
            "target_feature_build": {"what": "a second build of the simulator and of every crate with the host's SIMD target features enabled at compile time (so that cfg(target_feature) arms and the statically-detected AES-NI path are the code under test); a quarter of the worker processes run it, its pristine anchor tables are compared with the default build's",
                "present": alt_exe.is_some(), "runs": alt_runs, "anchor_tables": alt_anchor_tables.len()},
            "cross_process_anchors": {"what": "every worker process computes its pristine anchor table (every type, fixed key and input) in another seeded order of the types; the driver compares the tables entry by entry: a difference means that what a fresh instance returns depends on what ran earlier in the process",
                "processes": anchor_tables.len(), "entries_per_table": anchor_tables.first().map(|t| t.1.len()).unwrap_or(0), "tables_identical": anchor_digests.len() <= 1},
            "grid": grid_json,
            "churn": churn_json,
            "notes": notes,
        },
        "assumptions": [
            "keys, blocks and batch lengths are sampled, not enumerated",
            "interleaving is at operation granularity in this engine (a &self call has no yield point); intra-call preemption is explored by the Miri engine",
            "oracles are consistency oracles: a deviation common to every realisation, route, placement and history of a family is invisible here"
        ],
        "wall_s": wall,
        "violations": violations.len(),
    });
    if let Some(dir) = std::path::Path::new(&evidence).parent() {
        let _ = std::fs::create_dir_all(dir);
    }
    std::fs::write(&evidence, serde_json::to_string_pretty(&ev).unwrap()).unwrap_or_else(|e| die(&format!("write evidence: {}", e)));
    for (s, w) in &known_hits {
        println!("KNOWN-FINDING: property={} {} [{}]", prop.name(), w, s);
    }
    for n in &notes {
        println!("{}", n);
    }
    println!(
        "runs={} nontrivial={} distinct_nontrivial={} steps={} cipher_calls={} wall={:.1}s",
        runs,
        nontrivial,
        digests.len(),
        stats.steps,
        stats.cipher_calls,
        wall
    );
    if !herr.is_empty() && violations.is_empty() {
        for e in &herr {
            eprintln!("HARNESS-ERROR: {}", e);
        }
        std::process::exit(2);
    }
    for e in &herr {
        // something went wrong in the harness AND the code under test violated the property elsewhere: the
        // violations are confirmed one by one in fresh processes below; the harness trouble is reported beside them
        println!("note: harness trouble beside the violations below: {}", e);
    }
    if !violations.is_empty() {
        // confirm each in a fresh process before reporting
        let mut confirmed = 0;
        for v in &violations {
            let path = v["replay"].as_str().unwrap_or("");
            // the build that recorded the file replays it
            let rj: Value = std::fs::read_to_string(path).ok().and_then(|t| serde_json::from_str(&t).ok()).unwrap_or(Value::Null);
            let by_tf = rj.get("build").and_then(|x| x.as_str()) == Some("tf");
            let st = if rj.get("engine").and_then(|x| x.as_str()) == Some("cross-build") {
                // both builds' pristine tables, the named entry
                let entry = rj.get("entry").and_then(|x| x.as_str()).unwrap_or("");
                let a = spawn_json(&exe, &["anchor-table".to_string()]).ok().and_then(|j| j.get(entry).cloned());
                let b = alt_exe.as_ref().and_then(|x| spawn_json(x, &["anchor-table".to_string()]).ok()).and_then(|j| j.get(entry).cloned());
                let differs = a.is_some() && b.is_some() && a != b;
                Command::new("sh").args(["-c", if differs { "exit 1" } else { "exit 0" }]).status()
            } else {
                let rexe = if by_tf { alt_exe.clone().unwrap_or(exe.clone()) } else { exe.clone() };
                Command::new(&rexe).env("VERIF_BUILD_LABEL", if by_tf { "tf" } else { "" }).args(["replay", path, "--known", &known_path]).stdout(Stdio::piped()).status()
            };
            match st {
                Ok(s) if s.code() == Some(1) => {
                    confirmed += 1;
                    println!("{}", v["violation"]);
                    println!("VIOLATION property={} replay={}", prop.name(), path);
                }
                other => {
                    eprintln!("HARNESS-ERROR: violation in {} did not reproduce in a fresh process ({:?})", path, other);
                }
            }
        }
        if confirmed == 0 {
            std::process::exit(2);
        }
        std::process::exit(1);
    }
    println!("OK property={} held on {} runs", prop.name(), runs);
}

fn replay(args: &[String]) {
    let path = args.get(2).map(|s| s.as_str()).unwrap_or_else(|| die("replay <file>"));
    let s = std::fs::read_to_string(path).unwrap_or_else(|e| die(&format!("read {}: {}", path, e)));
    let v: Value = serde_json::from_str(&s).unwrap_or_else(|e| die(&format!("parse {}: {}", path, e)));
    let cold = v.get("cold").and_then(|x| x.as_bool()).unwrap_or(false);
    if cold && std::env::var_os("VERIF_IN_CHILD").is_none() {
        // a cold-start history runs as the first thing of a child process; its own deferred oracles judge it
        // there, and this (other) process gives the second opinion on the recorded calls
        let exe = std::env::current_exe().unwrap();
        let reg = sim::registry::build();
        let a: Vec<String> = ["cold-exec", path, "--known", arg(args, "--known").unwrap_or("/verif/known_findings.json")].iter().map(|s| s.to_string()).collect();
        let j = spawn_json(&exe, &a).unwrap_or_else(|e| die(&e));
        let mut slots = sim::mem::Slots::new();
        let sl = slots.alloc(0);
        let got = Violation::from_json(&j["violation"]).or_else(|| {
            judge_records(&reg, j["records"].as_array().map(|a| a.as_slice()).unwrap_or(&[]), slots.ptr(sl)).map(|(rec, want)| cross_process_violation(&rec, &want))
        });
        match got {
            Some(g) => {
                println!("{}", g.to_json());
                let want_class = v["violation"]["class"].as_str().unwrap_or("");
                if g.class == want_class && g.step as u64 == v["violation"]["step"].as_u64().unwrap_or(u64::MAX) {
                    println!("REPRODUCED exactly (class {}, step {})", g.class, g.step);
                } else {
                    println!("REPRODUCED a violation of {} but not the recorded one (recorded class {})", g.prop, want_class);
                }
                println!("VIOLATION property={} replay={}", v["property"].as_str().unwrap_or("?"), path);
                std::process::exit(1);
            }
            None => println!("NOT-REPRODUCED: the cold history ran without a violation, in its own process and by this process's second opinion"),
        }
        return;
    }
    if let Some(c) = v.get("churn").filter(|x| x.is_object()) {
        let reg = sim::registry::build();
        install_quiet_panic_hook();
        let ty = reg.type_by_name(c["type"].as_str().unwrap_or("")).unwrap_or_else(|| die("churn type"));
        let o = sim::engine::churn_type(&reg, ty, v["seed"].as_u64().unwrap_or(0), c["n"].as_u64().unwrap_or(0));
        match o.violation {
            Some(x) => {
                println!("{}", x.to_json());
                println!("REPRODUCED");
                println!("VIOLATION property=C15 replay={}", path);
                std::process::exit(1);
            }
            None => println!("NOT-REPRODUCED: {} constructions, {} checkpoints without a divergence", o.constructions, o.checkpoints),
        }
        return;
    }
    if v.get("died_at_start").and_then(|x| x.as_bool()).unwrap_or(false) {
        let exe = std::env::current_exe().unwrap();
        let mut a = vec!["anchor-table".to_string()];
        if let Some(o) = v.get("anchor_order").and_then(|x| x.as_u64()) {
            a.push("--anchor-order".into());
            a.push(o.to_string());
        }
        let st = Command::new(&exe).args(&a).stdout(Stdio::null()).stderr(Stdio::null()).status();
        match st {
            Ok(s) if !s.success() => {
                println!("REPRODUCED: a fresh process dies ({:?}) while constructing, using and dropping one instance of every type", s);
                println!("VIOLATION property={} replay={}", v.get("property").and_then(|x| x.as_str()).unwrap_or("C15"), path);
                std::process::exit(1);
            }
            _ => println!("NOT-REPRODUCED: a fresh process computes its anchor table and exits normally"),
        }
        return;
    }
    if let Some(orders) = v.get("anchor_orders").and_then(|x| x.as_array()) {
        let exe = std::env::current_exe().unwrap();
        let entry = v.get("entry").and_then(|x| x.as_str()).unwrap_or("");
        let mut vals = Vec::new();
        for o in orders {
            let mut a = vec!["anchor-table".to_string()];
            if let Some(n) = o.as_u64() {
                a.push("--anchor-order".into());
                a.push(n.to_string());
            }
            let j = spawn_json(&exe, &a).unwrap_or_else(|e| die(&e));
            vals.push(j.get(entry).cloned().unwrap_or(Value::Null));
        }
        if vals.len() == 2 && vals[0] != vals[1] {
            println!("REPRODUCED: {} is {} in a process that computes its anchors in order {:?} and {} in order {:?}", entry, vals[0], orders[0], vals[1], orders[1]);
            println!("VIOLATION property=C15 replay={}", path);
            std::process::exit(1);
        }
        println!("NOT-REPRODUCED: {} has the same pristine value under both orders", entry);
        return;
    }
    if let Some(wp) = v.get("worker_prefix").filter(|x| x.is_object()) {
        // the recorded outcome depends on what the finding worker's earlier runs left in process-global state:
        // re-execute that worker's deterministic sequence of runs up to the recorded one
        let reg = sim::registry::build();
        let anchors = Anchors::compute(&reg);
        install_quiet_panic_hook();
        let prop = Prop::parse(v.get("property").and_then(|x| x.as_str()).unwrap_or("")).unwrap_or_else(|| die("property"));
        let g = |k: &str| wp.get(k).and_then(|x| x.as_u64()).unwrap_or_else(|| die("worker_prefix"));
        let (master, stride, offset, upto) = (g("master_seed"), g("stride"), g("offset"), g("upto_run"));
        let want = wp.get("signature").and_then(|x| x.as_str()).unwrap_or("");
        let known = Known::load(arg(args, "--known").unwrap_or("/verif/known_findings.json"));
        let mut i = offset;
        while i <= upto {
            let r = sim::engine::run_one(&reg, &anchors, prop, sim::prng::run_seed(master, i), &known);
            if let Some(got) = r.violation {
                println!("{}", got.to_json());
                if i == upto && got.signature() == want {
                    println!("REPRODUCED exactly (run {} of the recorded worker, signature {})", i, want);
                } else {
                    println!("REPRODUCED a violation of {} at run {} (recorded: run {}, {})", got.prop, i, upto, want);
                }
                println!("VIOLATION property={} replay={}", prop.name(), path);
                std::process::exit(1);
            }
            i += stride;
        }
        println!("NOT-REPRODUCED: runs {}..={} step {} of the recorded worker completed without a {} violation", offset, upto, stride, prop.name());
        return;
    }
    if v.get("died").and_then(|x| x.as_bool()).unwrap_or(false) && std::env::var_os("VERIF_IN_CHILD").is_none() {
        // the recorded outcome is the death of the executing process: execute in a child and watch it
        let exe = std::env::current_exe().unwrap();
        let o = Command::new(&exe).args(["exec-file", path]).env("VERIF_IN_CHILD", "1").stdout(Stdio::piped()).stderr(Stdio::piped()).output().unwrap_or_else(|e| die(&format!("spawn: {}", e)));
        if o.status.success() {
            println!("NOT-REPRODUCED: the process executing the recorded history ended normally");
            return;
        }
        println!("REPRODUCED: the process executing the recorded history ended with {:?}: {}", o.status, String::from_utf8_lossy(&o.stderr).lines().rev().take(2).collect::<Vec<_>>().join(" | "));
        println!("VIOLATION property={} replay={}", v.get("property").and_then(|x| x.as_str()).unwrap_or("?"), path);
        std::process::exit(1);
    }
    let reg = sim::registry::build();
    // a cold-start replay must not construct anything before the recorded history runs
    let anchors = if cold { Anchors::compute_for(&reg, Some(&[])) } else { Anchors::compute(&reg) };
    install_quiet_panic_hook();
    match v.get("engine").and_then(|x| x.as_str()) {
        Some("native") => {}
        Some("c14") => return sim::bcrypt::replay(&v),
        Some("c16") => return sim::residue::replay(&v),
        e => die(&format!("replay file is for engine {:?}", e)),
    }
    let l = load_replay(&reg, &v).unwrap_or_else(|e| die(&e));
    let known = Known::load(arg(args, "--known").unwrap_or("/verif/known_findings.json"));
    let r = execute_mode(&reg, &anchors, &l.cfg, &l.ops, l.seed, Some(&l.prop), &known, cold);
    if let Some(e) = r.harness_error {
        die(&e);
    }
    match r.violation {
        Some(got) => {
            let want_class = l.violation.get("class").and_then(|x| x.as_str()).unwrap_or("");
            let want_step = l.violation.get("step").and_then(|x| x.as_u64()).unwrap_or(u64::MAX);
            println!("{}", got.to_json());
            if got.class == want_class && got.step as u64 == want_step {
                println!("REPRODUCED exactly (class {}, step {})", got.class, got.step);
            } else {
                println!("REPRODUCED a violation of {} but not the recorded one (recorded class {} step {})", got.prop, want_class, want_step);
            }
            println!("VIOLATION property={} replay={}", l.prop, path);
            std::process::exit(1);
        }
        None => {
            println!("NOT-REPRODUCED: {} operations applied without a {} violation", l.ops.len(), l.prop);
        }
    }
}

/// Print per-run digests for a seed range (determinism self-test, cross-target comparison).
fn digest(args: &[String]) {
    let reg = sim::registry::build();
    let anchors = Anchors::compute(&reg);
    install_quiet_panic_hook();
    let (prop, seed) = common(args);
    let from: u64 = arg(args, "--from").and_then(|s| s.parse().ok()).unwrap_or(0);
    let count: u64 = arg(args, "--count").and_then(|s| s.parse().ok()).unwrap_or(100);
    let known = Known::default();
    println!("anchors {:016x}", anchors.digest);
    for i in from..from + count {
        let r = sim::engine::run_one(&reg, &anchors, prop, sim::prng::run_seed(seed, i), &known);
        println!(
            "{} {:016x} {:016x} {:016x} ops={} steps={} viol={}",
            i,
            r.h_all,
            r.h_portable,
            r.task_order,
            r.ops.len(),
            r.stats.steps,
            r.violation.as_ref().map(|v| v.signature()).unwrap_or_else(|| "-".into())
        );
    }
}

/// Write explicit operation lists (replay-file format, no violation) for the interpreter engines.
fn export(args: &[String]) {
    let reg = sim::registry::build();
    let (prop, seed) = common(args);
    let from: u64 = arg(args, "--from").and_then(|s| s.parse().ok()).unwrap_or(0);
    let count: u64 = arg(args, "--count").and_then(|s| s.parse().ok()).unwrap_or(4);
    let out = arg(args, "--out").unwrap_or_else(|| die("--out <dir>"));
    let fams: Vec<&str> = arg(args, "--families").map(|s| s.split(',').collect()).unwrap_or_default();
    let vars: Option<Vec<String>> = arg(args, "--variants").map(|s| s.split(',').map(|x| x.to_string()).collect());
    let lim = sim::workload::Limits {
        families: if fams.is_empty() { None } else { Some(fams.iter().map(|f| reg.family(f).unwrap_or_else(|| die(&format!("no family {}", f)))).collect()) },
        variants: vars,
        max_len: arg(args, "--max-ops").and_then(|s| s.parse().ok()),
        max_variants: arg(args, "--max-variants").and_then(|s| s.parse().ok()),
        pars_hint: arg(args, "--pars").map(|s| s.split(',').filter_map(|x| x.parse().ok()).collect()),
        max_blocks: arg(args, "--max-blocks").and_then(|s| s.parse().ok()),
    };
    let anchors = Anchors::compute_for(&reg, Some(&fams));
    install_quiet_panic_hook();
    let known = Known::default();
    let _ = std::fs::create_dir_all(out);
    for i in from..from + count {
        let rs = sim::prng::run_seed(seed, i);
        let r = sim::engine::run_one_limited(&reg, &anchors, prop, rs, &known, &lim);
        let j = json!({
            "format": "block-ciphers-sim-replay/1", "property": prop.name(), "engine": "native", "seed": rs,
            "environment": r.cfg.to_json(&reg),
            "ops": r.ops.iter().map(|o| o.to_json(&reg)).collect::<Vec<_>>(),
            "violation": Value::Null,
            "meta": {"run": i, "master_seed": seed, "native_h_portable": format!("{:016x}", r.h_portable), "native_violation": r.violation.as_ref().map(|v| v.to_json())},
        });
        let p = format!("{}/{}-{}-{}.json", out, prop.name(), seed, i);
        std::fs::write(&p, serde_json::to_string(&j).unwrap()).unwrap_or_else(|e| die(&format!("write {}: {}", p, e)));
        println!("{} {:016x}", p, r.h_portable);
    }
}

// ---------------------------------------------------------------------------
// cold-start engine: one history per freshly started process, oracles deferred to the end

fn run_result_json(reg: &sim::registry::Registry, r: &RunResult) -> Value {
    json!({
        "seed": r.seed,
        "environment": r.cfg.to_json(reg),
        "ops": r.ops.iter().map(|o| o.to_json(reg)).collect::<Vec<_>>(),
        "violation": r.violation.as_ref().map(|v| v.to_json()),
        "notes": r.notes.iter().map(|v| v.to_json()).collect::<Vec<_>>(),
        "stats": r.stats.to_json(),
        "h_all": format!("{:016x}", r.h_all),
        "nontrivial": r.nontrivial(),
        "harness_error": r.harness_error,
        "records": r.records,
    })
}

/// One seeded history as the very first thing this process does (no anchors, no references before the end).
fn cold_one(args: &[String]) {
    let reg = sim::registry::build();
    let anchors = Anchors::compute_for(&reg, Some(&[]));
    install_quiet_panic_hook();
    let (prop, _) = common(args);
    let rs: u64 = arg(args, "--run-seed").and_then(|s| s.parse().ok()).unwrap_or_else(|| die("--run-seed"));
    let known = Known::load(arg(args, "--known").unwrap_or("/verif/known_findings.json"));
    let lim = sim::workload::Limits { max_len: Some(24), ..Default::default() };
    let r = run_one_mode(&reg, &anchors, prop, rs, &known, &lim, true);
    println!("{}", serde_json::to_string(&run_result_json(&reg, &r)).unwrap());
}

/// Execute an explicit operation list cold (used by the minimiser and by replay).
fn cold_exec(args: &[String]) {
    let path = args.get(2).map(|s| s.as_str()).unwrap_or_else(|| die("cold-exec <file>"));
    let reg = sim::registry::build();
    let anchors = Anchors::compute_for(&reg, Some(&[]));
    install_quiet_panic_hook();
    let s = std::fs::read_to_string(path).unwrap_or_else(|e| die(&format!("read {}: {}", path, e)));
    let v: Value = serde_json::from_str(&s).unwrap_or_else(|e| die(&format!("parse {}: {}", path, e)));
    let l = load_replay(&reg, &v).unwrap_or_else(|e| die(&e));
    let known = Known::load(arg(args, "--known").unwrap_or("/verif/known_findings.json"));
    let r = execute_mode(&reg, &anchors, &l.cfg, &l.ops, l.seed, Some(&l.prop), &known, true);
    println!("{}", serde_json::to_string(&run_result_json(&reg, &r)).unwrap());
}

/// Judge the calls a cold child recorded, in THIS process (whose global state has another history).
/// Returns the first record whose output differs from a fresh combined cipher evaluated here.
fn judge_records(reg: &sim::registry::Registry, records: &[Value], scratch: *mut u8) -> Option<(Value, Vec<u8>)> {
    for rec in records {
        if rec["detect"].as_bool().unwrap_or(false) && rec["mask_aes"].as_bool().unwrap_or(false) {
            continue; // the fault mask is process-global and this process keeps it off
        }
        let (Some(both), Some(key), Some(dir), Some(data), Some(out)) = (
            rec["both"].as_str().and_then(|n| reg.type_by_name(n)),
            rec["key"].as_str().and_then(sim::prng::unhex),
            rec["dir"].as_str().and_then(sim::registry::Dir::parse),
            rec["data"].as_str().and_then(sim::prng::unhex),
            rec["out"].as_str().and_then(sim::prng::unhex),
        ) else {
            continue;
        };
        if key.is_empty() {
            continue;
        }
        if let Ok(want) = sim::world::fresh_perblock_raw(&reg.types[both], scratch, &key, false, dir, &data) {
            if want != out {
                return Some((rec.clone(), want));
            }
        }
    }
    None
}

fn cross_process_violation(rec: &Value, want: &[u8]) -> Violation {
    Violation {
        prop: "C15",
        class: "cross-process".into(),
        step: rec["step"].as_u64().unwrap_or(0) as usize,
        family: String::new(),
        variant: String::new(),
        detail: format!(
            "{} {} (route {}, key {}) returned, in a process that ran only this history, bytes that differ from what a fresh {} returns for the same key and input in another process: the result depends on what else the process has done",
            rec["type"].as_str().unwrap_or("?"), rec["dir"].as_str().unwrap_or("?"), rec["route"], rec["key"].as_str().unwrap_or(""), rec["both"].as_str().unwrap_or("?")
        ),
        expected: want.to_vec(),
        got: rec["out"].as_str().and_then(sim::prng::unhex).unwrap_or_default(),
        also: if rec["route"].as_array().map(|a| a.len() > 1).unwrap_or(false) { vec!["C12"] } else { vec![] },
    }
}

pub struct ColdOut {
    pub runs: u64,
    pub nontrivial: u64,
    pub stats: Stats,
    pub digests: Vec<u64>,
    pub violations: Vec<Value>,
    pub herr: Vec<String>,
    pub notes: Vec<String>,
    pub wall: f64,
}

fn spawn_json(exe: &std::path::Path, args: &[String]) -> Result<Value, String> {
    let out = Command::new(exe).args(args).stdout(Stdio::piped()).stderr(Stdio::piped()).output().map_err(|e| e.to_string())?;
    let so = String::from_utf8_lossy(&out.stdout);
    let line = so.lines().last().unwrap_or("");
    if !out.status.success() {
        return Err(format!("status {:?}: {}", out.status, String::from_utf8_lossy(&out.stderr).lines().rev().take(3).collect::<Vec<_>>().join(" | ")));
    }
    serde_json::from_str(line).map_err(|e| format!("bad child output: {}", e))
}

fn cold_phase(prop: Prop, seed: u64, total: u64, workers: u64, known_path: &str, replay_dir: &str, tmp: &str) -> ColdOut {
    let t0 = Instant::now();
    let exe = std::env::current_exe().unwrap();
    let reg = sim::registry::build();
    let parts: Vec<ColdOut> = std::thread::scope(|sc| {
        let hs: Vec<_> = (0..workers)
            .map(|w| {
                let exe = exe.clone();
                let reg = &reg;
                sc.spawn(move || {
                    let mut o = ColdOut { runs: 0, nontrivial: 0, stats: Stats::default(), digests: vec![], violations: vec![], herr: vec![], notes: vec![], wall: 0.0 };
                    let mut jslots = sim::mem::Slots::new();
                    let jslot = jslots.alloc(0);
                    let jptr = jslots.ptr(jslot);
                    let mut i = w;
                    while i < total {
                        let rs = sim::prng::run_seed(seed ^ 0xC01D, i);
                        let a: Vec<String> = ["cold-one", "--prop", prop.name(), "--run-seed", &rs.to_string(), "--known", known_path].iter().map(|s| s.to_string()).collect();
                        match spawn_json(&exe, &a) {
                            Ok(j) => {
                                o.runs += 1;
                                o.stats.add(&Stats::from_json(&j["stats"]));
                                if j["nontrivial"].as_bool().unwrap_or(false) {
                                    o.nontrivial += 1;
                                    o.digests.push(u64::from_str_radix(j["h_all"].as_str().unwrap_or("0"), 16).unwrap_or(0));
                                }
                                if let Some(e) = j["harness_error"].as_str() {
                                    o.herr.push(format!("cold run {}: {}", i, e));
                                }
                                for n in j["notes"].as_array().cloned().unwrap_or_default() {
                                    if o.notes.len() < 4 {
                                        o.notes.push(format!("note: {}-class divergence seen in cold run {} (not this check's property): {}", n["property"].as_str().unwrap_or("?"), i, n["detail"].as_str().unwrap_or("")));
                                    }
                                }
                                let mut j = j;
                                if j["violation"].is_null() {
                                    // second opinion from another process (this one)
                                    if let Some((rec, want)) = judge_records(reg, j["records"].as_array().map(|a| a.as_slice()).unwrap_or(&[]), jptr) {
                                        let v = cross_process_violation(&rec, &want);
                                        if v.concerns(prop.name()) {
                                            j["violation"] = v.to_json();
                                        }
                                    }
                                }
                                if !j["violation"].is_null() && o.violations.len() < 2 {
                                    // minimise by replaying candidates in fresh processes
                                    let l = load_replay(reg, &json!({"property": prop.name(), "seed": rs, "environment": j["environment"], "ops": j["ops"]}));
                                    let v0 = Violation::from_json(&j["violation"]);
                                    if let (Ok(l), Some(v0)) = (l, v0) {
                                        let base = format!("{}/{}-cold-{}-{}", replay_dir, prop.name(), seed, i);
                                        let _ = std::fs::create_dir_all(replay_dir);
                                        let mk = |cfg: &RunCfg, ops: &[Op], v: &Violation, meta: Value| {
                                            let mut rj = replay_json(reg, prop.name(), rs, cfg, ops, v, meta);
                                            rj["cold"] = json!(true);
                                            rj
                                        };
                                        let _ = std::fs::write(format!("{}.orig.json", base), serde_json::to_string_pretty(&mk(&l.cfg, &l.ops, &v0, json!({"run": i, "minimised": false}))).unwrap());
                                        let rr = RunResult { seed: rs, cfg: l.cfg.clone(), ops: l.ops.clone(), violation: Some(v0.clone()), notes: vec![], stats: Stats::default(), h_all: 0, h_portable: 0, task_order: 0, insts_created: 0, harness_error: None, records: vec![] };
                                        let cand = format!("{}/cold-cand-{}.json", tmp, w);
                                        let mut exec = |cfg: &RunCfg, ops: &[Op]| -> Option<Violation> {
                                            let rj = mk(cfg, ops, &v0, json!({}));
                                            std::fs::write(&cand, serde_json::to_string(&rj).unwrap()).ok()?;
                                            let a: Vec<String> = ["cold-exec", &cand, "--known", known_path].iter().map(|s| s.to_string()).collect();
                                            let j = spawn_json(&exe, &a).ok()?;
                                            Violation::from_json(&j["violation"]).or_else(|| {
                                                judge_records(reg, j["records"].as_array().map(|a| a.as_slice()).unwrap_or(&[]), jptr).map(|(rec, want)| cross_process_violation(&rec, &want))
                                            })
                                        };
                                        let (path, vj) = match shrink_with(&rr, prop.name(), &mut exec) {
                                            Some(s) => {
                                                let p = format!("{}.min.json", base);
                                                let _ = std::fs::write(&p, serde_json::to_string_pretty(&mk(&s.cfg, &s.ops, &s.violation, json!({"run": i, "minimised": true, "ops_before": l.ops.len(), "ops_after": s.ops.len(), "shrink_replays": s.replays}))).unwrap());
                                                (p, s.violation.to_json())
                                            }
                                            None => {
                                                o.herr.push(format!("cold run {}: violation did not reproduce in a fresh cold process: {}", i, v0.detail));
                                                (format!("{}.orig.json", base), v0.to_json())
                                            }
                                        };
                                        let _ = std::fs::remove_file(&cand);
                                        o.violations.push(json!({"replay": path, "violation": vj, "run": i, "seed": rs}));
                                    }
                                }
                            }
                            Err(e) => {
                                // the child died inside cipher code: report with what we know
                                o.herr.push(format!("cold run {} (run seed {}) ended abnormally: {}", i, rs, e));
                            }
                        }
                        i += workers;
                    }
                    o
                })
            })
            .collect();
        hs.into_iter().map(|h| h.join().unwrap()).collect()
    });
    let mut out = ColdOut { runs: 0, nontrivial: 0, stats: Stats::default(), digests: vec![], violations: vec![], herr: vec![], notes: vec![], wall: 0.0 };
    for p in parts {
        out.runs += p.runs;
        out.nontrivial += p.nontrivial;
        out.stats.add(&p.stats);
        out.digests.extend(p.digests);
        out.violations.extend(p.violations);
        out.herr.extend(p.herr);
        out.notes.extend(p.notes);
    }
    out.digests.sort_unstable();
    out.digests.dedup();
    out.wall = t0.elapsed().as_secs_f64();
    out
}

/// Cross-check the five-intrinsic aarch64 model against this host's AES-NI instructions.
fn selftest_model() {
    match sim::workload::schedule_twin::selftest() {
        Ok(()) => println!("selftest-model: AES schedule-twin key generator agrees with FIPS-197 A.2/A.3 and inverts"),
        Err(e) => die(&format!("schedule-twin selftest: {}", e)),
    }
    #[cfg(target_arch = "x86_64")]
    {
        use core::arch::x86_64::*;
        use sim::verif_neon_model as m;
        if !std::arch::is_x86_feature_detected!("aes") {
            println!("selftest-model: host has no AES-NI, skipped");
            return;
        }
        #[target_feature(enable = "aes")]
        unsafe fn ni(x: [u8; 16], k: [u8; 16]) -> ([u8; 16], [u8; 16], [u8; 16], [u8; 16]) {
            unsafe {
                let xv: __m128i = core::mem::transmute(x);
                let kv: __m128i = core::mem::transmute(k);
                let z = _mm_setzero_si128();
                // AESE(x,k) = SubBytes(ShiftRows(x^k)) = aesenclast(x^k, 0)
                let e = _mm_aesenclast_si128(_mm_xor_si128(xv, kv), z);
                let d = _mm_aesdeclast_si128(_mm_xor_si128(xv, kv), z);
                // MixColumns(y) = aesenc(InvShiftRows(InvSubBytes(y)), 0): use aesdeclast to pre-invert
                let mc = _mm_aesenc_si128(_mm_aesdeclast_si128(xv, z), z);
                let imc = _mm_aesimc_si128(xv);
                (core::mem::transmute(e), core::mem::transmute(d), core::mem::transmute(mc), core::mem::transmute(imc))
            }
        }
        let mut rng = sim::prng::Prng::new(7);
        for i in 0..100_000 {
            let mut x = [0u8; 16];
            let mut k = [0u8; 16];
            rng.fill(&mut x);
            rng.fill(&mut k);
            if i == 0 {
                x = [0; 16];
                k = [0; 16];
            }
            let (e, d, mc, imc) = unsafe { ni(x, k) };
            if m::aese(x, k) != e || m::aesd(x, k) != d || m::aesmc(x) != mc || m::aesimc(x) != imc {
                die("the aarch64 intrinsic model disagrees with AES-NI");
            }
        }
        // keygenassist
        #[target_feature(enable = "aes")]
        unsafe fn kga<const R: i32>(x: [u8; 16]) -> [u8; 16] {
            unsafe { core::mem::transmute(_mm_aeskeygenassist_si128::<R>(core::mem::transmute(x))) }
        }
        for _ in 0..20_000 {
            let mut x = [0u8; 16];
            rng.fill(&mut x);
            let ok = unsafe { kga::<0x00>(x) == m::keygenassist(x, 0) && kga::<0x1b>(x) == m::keygenassist(x, 0x1b) && kga::<0x80>(x) == m::keygenassist(x, 0x80) };
            if !ok {
                die("the keygenassist model disagrees with AES-NI");
            }
        }
        // tbl4
        let tab = [[1u8; 16], [2; 16], [3; 16], [4; 16]];
        let mut ix = [0u8; 16];
        for (i, v) in ix.iter_mut().enumerate() {
            *v = (i * 17) as u8;
        }
        let o = m::tbl4(tab, ix);
        for i in 0..16 {
            let j = ix[i] as usize;
            assert_eq!(o[i], if j < 64 { (j / 16 + 1) as u8 } else { 0 });
        }
        println!("selftest-model: aese/aesd/aesmc/aesimc agree with AES-NI on 100000 random inputs, keygenassist on 20000; tbl4 ok");
    }
}

// ---------------------------------------------------------------------------
// a worker process died inside cipher code

/// One traced run (every operation printed before it is applied).
fn one(args: &[String]) {
    let reg = sim::registry::build();
    let anchors = Anchors::compute(&reg);
    install_quiet_panic_hook();
    let (prop, _) = common(args);
    let rs: u64 = arg(args, "--run-seed").and_then(|s| s.parse().ok()).unwrap_or_else(|| die("--run-seed"));
    let known = Known::load(arg(args, "--known").unwrap_or("/verif/known_findings.json"));
    let r = sim::engine::run_one_full(&reg, &anchors, prop, rs, &known, &sim::workload::Limits::default(), false, true);
    println!("@done {}", serde_json::to_string(&run_result_json(&reg, &r)).unwrap());
}

/// Execute an explicit operation list (warm process) and print the result as JSON; used when minimising a history that kills the process.
fn exec_file(args: &[String]) {
    let path = args.get(2).map(|s| s.as_str()).unwrap_or_else(|| die("exec-file <file>"));
    let reg = sim::registry::build();
    let anchors = Anchors::compute(&reg);
    install_quiet_panic_hook();
    let s = std::fs::read_to_string(path).unwrap_or_else(|e| die(&format!("read {}: {}", path, e)));
    let v: Value = serde_json::from_str(&s).unwrap_or_else(|e| die(&format!("parse {}: {}", path, e)));
    let l = load_replay(&reg, &v).unwrap_or_else(|e| die(&e));
    let known = Known::load(arg(args, "--known").unwrap_or("/verif/known_findings.json"));
    let target = arg(args, "--prop").map(|s| s.to_string());
    let r = execute_mode(&reg, &anchors, &l.cfg, &l.ops, l.seed, target.as_deref(), &known, false);
    println!("{}", serde_json::to_string(&run_result_json(&reg, &r)).unwrap());
}

fn died_violation(reg: &sim::registry::Registry, ops: &[Op], how: &str) -> Violation {
    let last = ops.last();
    let (prop, fam) = match last {
        Some(Op::Call { .. }) | Some(Op::Repeat { .. }) => ("C04", ""),
        Some(Op::Clone { .. }) | Some(Op::CloneFrom { .. }) | Some(Op::Conv { .. }) => ("C12", ""),
        _ => ("C15", ""),
    };
    let _ = (reg, fam);
    Violation {
        prop,
        class: "process-died".into(),
        step: ops.len().saturating_sub(1),
        family: String::new(),
        variant: String::new(),
        detail: format!("the process executing this history was killed or aborted during its last operation ({}): {}", last.map(|o| o.kind()).unwrap_or("?"), how),
        expected: vec![],
        got: vec![],
        also: vec!["C04", "C12", "C15"].into_iter().filter(|p| *p != prop).collect(),
    }
}

/// Re-run (traced) the run a dead worker was executing; if it dies again, minimise and write a replay file.
#[allow(clippy::too_many_arguments)]
fn died_run(exe: &std::path::Path, prop: Prop, rs: u64, ri: u64, master: u64, replay_dir: &str, known_path: &str, tmp: &str, tail: &str) -> Option<Value> {
    let reg = sim::registry::build();
    let out = Command::new(exe).args(["one", "--prop", prop.name(), "--run-seed", &rs.to_string(), "--known", known_path]).stdout(Stdio::piped()).stderr(Stdio::piped()).output().ok()?;
    let so = String::from_utf8_lossy(&out.stdout).to_string();
    if out.status.success() && so.lines().any(|l| l.starts_with("@done")) {
        return None;
    }
    let how = format!("status {:?}; {}", out.status, String::from_utf8_lossy(&out.stderr).lines().rev().take(2).collect::<Vec<_>>().join(" | "));
    let env: Value = so.lines().find_map(|l| l.strip_prefix("@env ")).and_then(|x| serde_json::from_str(x).ok())?;
    let opsj: Vec<Value> = so.lines().filter_map(|l| l.strip_prefix("@op ")).filter_map(|x| x.split_once(' ')).filter_map(|(_, j)| serde_json::from_str(j).ok()).collect();
    let l = load_replay(&reg, &json!({"property": prop.name(), "seed": rs, "environment": env, "ops": opsj})).ok()?;
    let _ = (master, how);
    died_list(exe, prop, rs, &l.cfg, &l.ops, &format!("{}/{}-died-{}-{}", replay_dir, prop.name(), master, ri), known_path, tmp, tail)
}

/// A given history kills the process executing it: confirm in a child, minimise in children, write a replay file.
#[allow(clippy::too_many_arguments)]
fn died_list(exe: &std::path::Path, prop: Prop, rs: u64, cfg0: &RunCfg, ops0: &[Op], base: &str, known_path: &str, tmp: &str, tail: &str) -> Option<Value> {
    let reg = sim::registry::build();
    let ri = rs;
    struct L { cfg: RunCfg, ops: Vec<Op> }
    let l = L { cfg: cfg0.clone(), ops: ops0.to_vec() };
    let how = tail.to_string();
    let replay_dir = std::path::Path::new(base).parent().map(|p| p.display().to_string()).unwrap_or_default();
    let base = base.to_string();
    let v0 = died_violation(&reg, &l.ops, &how);
    let mk = |cfg: &RunCfg, ops: &[Op], v: &Violation, meta: Value| {
        let mut rj = replay_json(&reg, prop.name(), rs, cfg, ops, v, meta);
        rj["died"] = json!(true);
        rj
    };
    let _ = std::fs::create_dir_all(&replay_dir);
    let _ = std::fs::write(format!("{}.orig.json", base), serde_json::to_string_pretty(&mk(&l.cfg, &l.ops, &v0, json!({"run": ri, "minimised": false, "worker_stderr": tail}))).unwrap());
    let rr = RunResult { seed: rs, cfg: l.cfg.clone(), ops: l.ops.clone(), violation: Some(v0.clone()), notes: vec![], stats: Stats::default(), h_all: 0, h_portable: 0, task_order: 0, insts_created: 0, harness_error: None, records: vec![] };
    let cand = format!("{}/died-cand-{}.json", tmp, ri);
    let mut exec = |cfg: &RunCfg, ops: &[Op]| -> Option<Violation> {
        let rj = mk(cfg, ops, &v0, json!({}));
        std::fs::write(&cand, serde_json::to_string(&rj).unwrap()).ok()?;
        let o = Command::new(exe).args(["exec-file", &cand, "--known", known_path]).env("VERIF_TRACE_OPS", "1").stdout(Stdio::piped()).stderr(Stdio::piped()).output().ok()?;
        if o.status.success() {
            None
        } else if o.status.code() == Some(2) {
            None
        } else {
            // the last announced operation is the fatal one
            let so = String::from_utf8_lossy(&o.stdout);
            let last = so.lines().rev().find_map(|l| l.strip_prefix("@op ")).and_then(|x| x.split(' ').next()).and_then(|x| x.parse::<usize>().ok()).unwrap_or(ops.len().saturating_sub(1));
            let upto = (last + 1).min(ops.len());
            Some(died_violation(&reg, &ops[..upto], "died again"))
        }
    };
    // signature of a death carries no family; shrink_with compares signatures, which are equal for all deaths of one property
    let shr = shrink_with(&rr, v0.prop, &mut exec);
    let _ = std::fs::remove_file(&cand);
    let (path, v) = match shr {
        Some(s) => {
            let p = format!("{}.min.json", base);
            let _ = std::fs::write(&p, serde_json::to_string_pretty(&mk(&s.cfg, &s.ops, &s.violation, json!({"run": ri, "minimised": true, "ops_before": l.ops.len(), "ops_after": s.ops.len()}))).unwrap());
            (p, s.violation)
        }
        None => (format!("{}.orig.json", base), v0),
    };
    Some(json!({"replay": path, "violation": v.to_json(), "run": ri, "seed": rs}))
}

/// The grid phase in a process of its own (see check()): announces each case before executing it.
fn grid(args: &[String]) {
    let reg = sim::registry::build();
    let anchors = Anchors::compute(&reg);
    install_quiet_panic_hook();
    let (prop, seed) = common(args);
    let known = Known::load(arg(args, "--known").unwrap_or("/verif/known_findings.json"));
    let replay_dir = arg(args, "--replay-dir").unwrap_or("/verif/replays").to_string();
    let cases = sim::engine::grid_cases(&reg, prop, seed);
    let mut stats = Stats::default();
    let (mut gops, mut gcalls) = (0u64, 0u64);
    let mut violations: Vec<Value> = Vec::new();
    let mut herr: Vec<String> = Vec::new();
    let mut known_hits: Vec<Value> = Vec::new();
    for (ci, c) in cases.iter().enumerate() {
        println!("@case {}", ci);
        let _ = std::io::stdout().flush();
        let r = execute_mode(&reg, &anchors, &c.cfg, &c.ops, seed ^ ci as u64, Some(prop.name()), &known, false);
        gops += r.stats.steps - r.stats.skipped;
        gcalls += r.stats.cipher_calls;
        stats.add(&r.stats);
        if let Some(e) = &r.harness_error {
            herr.push(format!("grid case {}: {}", c.label, e));
        }
        for n in &r.notes {
            if let Some((sg, w)) = known.matches(n) {
                known_hits.push(json!([sg, w]));
            }
        }
        if r.violation.is_some() && violations.len() < 3 {
            let v = r.violation.clone().unwrap();
            let base = format!("{}/{}-grid-{}-{}", replay_dir, prop.name(), seed, ci);
            let _ = std::fs::create_dir_all(&replay_dir);
            let (path, vj) = match sim::engine::shrink(&reg, &anchors, &r, &known, prop.name()) {
                Some(sh) => {
                    let p = format!("{}.min.json", base);
                    let _ = std::fs::write(&p, serde_json::to_string_pretty(&replay_json(&reg, prop.name(), r.seed, &sh.cfg, &sh.ops, &sh.violation, json!({"grid_case": c.label, "minimised": true, "ops_before": r.ops.len(), "ops_after": sh.ops.len()}))).unwrap());
                    (p, sh.violation.to_json())
                }
                None => {
                    let p = format!("{}.orig.json", base);
                    let _ = std::fs::write(&p, serde_json::to_string_pretty(&replay_json(&reg, prop.name(), r.seed, &r.cfg, &r.ops[..=v.step.min(r.ops.len() - 1)], &v, json!({"grid_case": c.label, "minimised": false}))).unwrap());
                    (p, v.to_json())
                }
            };
            violations.push(json!({"replay": path, "violation": vj, "run": format!("grid:{}", c.label), "seed": r.seed}));
        }
    }
    println!("@grid-done {}", serde_json::to_string(&json!({"cases": cases.len(), "operations_applied": gops, "cipher_calls": gcalls, "stats": stats.to_json(),
        "violations": violations, "harness_errors": herr, "known_hits": known_hits})).unwrap());
}

/// Churn phase worker: the combined types of the families with index = offset mod stride.
fn churn(args: &[String]) {
    let reg = sim::registry::build();
    install_quiet_panic_hook();
    let (_prop, seed) = common(args);
    let stride: usize = arg(args, "--stride").and_then(|s| s.parse().ok()).unwrap_or(1);
    let offset: usize = arg(args, "--offset").and_then(|s| s.parse().ok()).unwrap_or(0);
    let only: Option<&str> = arg(args, "--type");
    let scale: u64 = arg(args, "--scale").and_then(|s| s.parse().ok()).unwrap_or(1);
    let (mut types, mut constructions, mut checkpoints) = (0u64, 0u64, 0u64);
    let mut viol: Vec<Value> = Vec::new();
    for (fi, fam) in reg.families.iter().enumerate() {
        if only.is_none() && fi % stride != offset {
            continue;
        }
        // the default build and one other variant
        let mut vs: Vec<usize> = vec![0];
        if fam.variants.len() > 1 {
            vs.push(1 + (seed as usize + fi) % (fam.variants.len() - 1));
        }
        for vi in vs {
            let ty = fam.variants[vi].both;
            if let Some(o) = only {
                if reg.types[ty].name != o {
                    continue;
                }
            }
            println!("@type {}", reg.types[ty].name);
            let _ = std::io::stdout().flush();
            let n = sim::engine::churn_count(fam.name) * scale;
            let o = sim::engine::churn_type(&reg, ty, seed, n);
            types += 1;
            constructions += o.constructions;
            checkpoints += o.checkpoints;
            if let Some(v) = o.violation {
                viol.push(json!({"type": reg.types[ty].name, "n": n, "violation": v.to_json()}));
            }
        }
    }
    println!("@churn-done {}", serde_json::to_string(&json!({"types": types, "constructions": constructions, "checkpoints": checkpoints, "violations": viol})).unwrap());
}
