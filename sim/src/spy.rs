//! A global allocator that can photograph one block at the moment it is handed back.
//!
//! C16 asks what a dropped cipher leaves behind. `drop_in_place` on storage the harness keeps (and reads
//! afterwards) answers that for every wipe whose stores the compiler must keep; it cannot see a wipe made of
//! ordinary stores that the optimiser deletes because the storage dies with the drop (a `Box` being freed). For
//! that route the residue engine arms this allocator with the layout it is waiting for, drops a boxed instance,
//! and reads the photograph taken inside `dealloc` - memory the allocator has just been given back.
//! Single-threaded use only (the residue engine is single-threaded); other threads' deallocations of the same
//! layout while armed would be photographed instead, which the engine excludes by not running any.

use std::alloc::{GlobalAlloc, Layout, System};
use std::cell::UnsafeCell;
use std::sync::atomic::{AtomicUsize, Ordering::SeqCst};

pub const SNAP_MAX: usize = 16384;

pub struct Spy;

struct Buf(UnsafeCell<[u8; SNAP_MAX]>);
unsafe impl Sync for Buf {}

static SNAP: Buf = Buf(UnsafeCell::new([0u8; SNAP_MAX]));
/// 0 = not armed; otherwise size of the layout waited for
static ARMED_SIZE: AtomicUsize = AtomicUsize::new(0);
static ARMED_ALIGN: AtomicUsize = AtomicUsize::new(0);
static TAKEN: AtomicUsize = AtomicUsize::new(0);

unsafe impl GlobalAlloc for Spy {
    unsafe fn alloc(&self, layout: Layout) -> *mut u8 {
        unsafe { System.alloc(layout) }
    }
    unsafe fn alloc_zeroed(&self, layout: Layout) -> *mut u8 {
        unsafe { System.alloc_zeroed(layout) }
    }
    unsafe fn realloc(&self, ptr: *mut u8, layout: Layout, new_size: usize) -> *mut u8 {
        unsafe { System.realloc(ptr, layout, new_size) }
    }
    unsafe fn dealloc(&self, ptr: *mut u8, layout: Layout) {
        let want = ARMED_SIZE.load(SeqCst);
        if want != 0 && layout.size() == want && layout.align() == ARMED_ALIGN.load(SeqCst) && want <= SNAP_MAX {
            unsafe { core::ptr::copy_nonoverlapping(ptr as *const u8, SNAP.0.get() as *mut u8, want) };
            TAKEN.store(want, SeqCst);
            ARMED_SIZE.store(0, SeqCst);
        }
        unsafe { System.dealloc(ptr, layout) }
    }
}

/// wait for the next deallocation of exactly this layout
pub fn arm(size: usize, align: usize) {
    TAKEN.store(0, SeqCst);
    ARMED_ALIGN.store(align, SeqCst);
    ARMED_SIZE.store(size, SeqCst);
}

/// the photograph, if one was taken since `arm`
pub fn take() -> Option<Vec<u8>> {
    ARMED_SIZE.store(0, SeqCst);
    let n = TAKEN.swap(0, SeqCst);
    if n == 0 {
        return None;
    }
    Some(unsafe { (&(*SNAP.0.get()))[..n].to_vec() })
}
