//! C14 engine: the eksblowfish primitives (`bcrypt` feature) as a state machine,
//! stepped in lock-step with an independent reference model over seeded call
//! histories (init / expand / salted-expand / encrypt / clone / relocate / drop /
//! trait-level block calls / the bcrypt cost-loop shape).
//!
//! The reference model is written from the Provos-Mazieres description: a
//! byte-wise cyclic stream reader, a textbook 16-round Feistel network, one
//! 64-bit block per step. Its initial P-array and S-boxes are computed from the
//! hexadecimal expansion of pi (gen/pi_hex.py), not copied from the repository.

use crate::prng::{Digest, Prng, hex, run_seed, unhex};
use blowfish_zb::Blowfish;
use cipher::{BlockCipherDecrypt, BlockCipherEncrypt, KeyInit};
use serde_json::{Value, json};
use std::collections::HashSet;
use std::time::Instant;

fn arg<'a>(args: &'a [String], name: &str) -> Option<&'a str> {
    args.iter().position(|a| a == name).and_then(|i| args.get(i + 1)).map(|s| s.as_str())
}

fn die(msg: &str) -> ! {
    eprintln!("HARNESS-ERROR: {}", msg);
    std::process::exit(2)
}

// ---------------------------------------------------------------------------
// reference model

#[derive(Clone)]
pub struct Model {
    p: Vec<u32>,      // 18
    s: Vec<Vec<u32>>, // 4 x 256
}

pub struct PiConsts {
    words: Vec<u32>,
}

impl PiConsts {
    pub fn load(path: &str) -> PiConsts {
        let h = std::fs::read_to_string(path).unwrap_or_else(|e| die(&format!("pi digits {}: {}", path, e)));
        Self::from_hex(&h)
    }
    /// the hexadecimal digits themselves (the interpreter runs with isolation on and gets them through argv)
    pub fn from_hex(h: &str) -> PiConsts {
        let h = h.trim();
        if h.len() < 8 * (18 + 1024) {
            die("pi digit file too short");
        }
        let words = (0..18 + 1024).map(|i| u32::from_str_radix(&h[8 * i..8 * i + 8], 16).unwrap_or_else(|_| die("bad pi digits"))).collect();
        PiConsts { words }
    }
}

/// cyclic big-endian byte stream
struct Stream<'a> {
    data: &'a [u8],
    pos: usize,
}

impl Stream<'_> {
    fn byte(&mut self) -> u8 {
        let b = self.data[self.pos % self.data.len()];
        self.pos += 1;
        b
    }
    fn word(&mut self) -> u32 {
        let mut w = 0u32;
        for _ in 0..4 {
            w = w.wrapping_mul(256).wrapping_add(self.byte() as u32);
        }
        w
    }
}

impl Model {
    pub fn init(pi: &PiConsts) -> Model {
        Model { p: pi.words[..18].to_vec(), s: (0..4).map(|i| pi.words[18 + 256 * i..18 + 256 * (i + 1)].to_vec()).collect() }
    }
    fn f(&self, x: u32) -> u32 {
        let b = x.to_be_bytes();
        let h = self.s[0][b[0] as usize].wrapping_add(self.s[1][b[1] as usize]);
        (h ^ self.s[2][b[2] as usize]).wrapping_add(self.s[3][b[3] as usize])
    }
    pub fn encrypt(&self, lr: [u32; 2]) -> [u32; 2] {
        let (mut l, mut r) = (lr[0], lr[1]);
        for i in 0..16 {
            l ^= self.p[i];
            r ^= self.f(l);
            core::mem::swap(&mut l, &mut r);
        }
        core::mem::swap(&mut l, &mut r);
        r ^= self.p[16];
        l ^= self.p[17];
        [l, r]
    }
    pub fn decrypt(&self, lr: [u32; 2]) -> [u32; 2] {
        let (mut l, mut r) = (lr[0], lr[1]);
        for i in (2..18).rev() {
            l ^= self.p[i];
            r ^= self.f(l);
            core::mem::swap(&mut l, &mut r);
        }
        core::mem::swap(&mut l, &mut r);
        r ^= self.p[1];
        l ^= self.p[0];
        [l, r]
    }
    /// ExpandKey(state, salt, key) of the eksblowfish paper; `salt = None` is plain Blowfish keying.
    pub fn expand(&mut self, salt: Option<&[u8]>, key: &[u8]) {
        let mut ks = Stream { data: key, pos: 0 };
        for i in 0..18 {
            self.p[i] ^= ks.word();
        }
        let zero = [0u8; 1];
        let mut ss = Stream { data: salt.unwrap_or(&zero), pos: 0 };
        let mut block = [0u32; 2];
        for i in 0..9 {
            block[0] ^= ss.word();
            block[1] ^= ss.word();
            block = self.encrypt(block);
            self.p[2 * i] = block[0];
            self.p[2 * i + 1] = block[1];
        }
        for b in 0..4 {
            for j in 0..128 {
                block[0] ^= ss.word();
                block[1] ^= ss.word();
                block = self.encrypt(block);
                self.s[b][2 * j] = block[0];
                self.s[b][2 * j + 1] = block[1];
            }
        }
    }
}

// ---------------------------------------------------------------------------
// operations

#[derive(Clone, Debug, PartialEq)]
pub enum BOp {
    Init { i: u8 },
    Expand { i: u8, key: Vec<u8> },
    Salted { i: u8, salt: Vec<u8>, key: Vec<u8> },
    Encrypt { i: u8, lr: [u32; 2] },
    TraitBlock { i: u8, dec: bool, block: [u8; 8] },
    Clone { i: u8, j: u8 },
    Relocate { i: u8 },
    Drop { i: u8 },
    /// salted_expand, then 2^cost x { expand(key), expand(salt) }
    CostLoop { i: u8, cost: u8, salt: Vec<u8>, key: Vec<u8> },
    /// expand(key) on a fresh state equals Blowfish::new_from_slice(key)
    KeyingEquiv { key: Vec<u8> },
    /// salted_expand(0..0, key) equals expand(key) starting from state i
    ZeroSaltEquiv { i: u8, zeros: u16, key: Vec<u8> },
    /// an input of 2^32 + extra bytes (zero except for `head` at its start; lazily mapped, only the pages read are
    /// ever touched): form 0 = bc_expand_key(huge), 1 = salted_expand_key(salt = huge, key = other),
    /// 2 = salted_expand_key(salt = other, key = huge). 64-bit native targets only.
    Huge { i: u8, form: u8, head: Vec<u8>, extra: u16, other: Vec<u8> },
}

impl BOp {
    fn to_json(&self) -> Value {
        match self {
            BOp::Init { i } => json!({"op":"bc_init_state","i":i}),
            BOp::Expand { i, key } => json!({"op":"bc_expand_key","i":i,"key":hex(key)}),
            BOp::Salted { i, salt, key } => json!({"op":"salted_expand_key","i":i,"salt":hex(salt),"key":hex(key)}),
            BOp::Encrypt { i, lr } => json!({"op":"bc_encrypt","i":i,"l":lr[0],"r":lr[1]}),
            BOp::TraitBlock { i, dec, block } => json!({"op":"trait_block","i":i,"dec":dec,"block":hex(block)}),
            BOp::Clone { i, j } => json!({"op":"clone","i":i,"j":j}),
            BOp::Relocate { i } => json!({"op":"relocate","i":i}),
            BOp::Drop { i } => json!({"op":"drop","i":i}),
            BOp::CostLoop { i, cost, salt, key } => json!({"op":"cost_loop","i":i,"cost":cost,"salt":hex(salt),"key":hex(key)}),
            BOp::KeyingEquiv { key } => json!({"op":"keying_equiv","key":hex(key)}),
            BOp::ZeroSaltEquiv { i, zeros, key } => json!({"op":"zero_salt_equiv","i":i,"zeros":zeros,"key":hex(key)}),
            BOp::Huge { i, form, head, extra, other } => json!({"op":"huge_input","i":i,"form":form,"head":hex(head),"extra":extra,"other":hex(other)}),
        }
    }
    fn from_json(v: &Value) -> Option<BOp> {
        let u = |k: &str| v.get(k).and_then(|x| x.as_u64());
        let h = |k: &str| v.get(k).and_then(|x| x.as_str()).and_then(unhex);
        Some(match v.get("op")?.as_str()? {
            "bc_init_state" => BOp::Init { i: u("i")? as u8 },
            "bc_expand_key" => BOp::Expand { i: u("i")? as u8, key: h("key")? },
            "salted_expand_key" => BOp::Salted { i: u("i")? as u8, salt: h("salt")?, key: h("key")? },
            "bc_encrypt" => BOp::Encrypt { i: u("i")? as u8, lr: [u("l")? as u32, u("r")? as u32] },
            "trait_block" => BOp::TraitBlock { i: u("i")? as u8, dec: v.get("dec")?.as_bool()?, block: h("block")?.try_into().ok()? },
            "clone" => BOp::Clone { i: u("i")? as u8, j: u("j")? as u8 },
            "relocate" => BOp::Relocate { i: u("i")? as u8 },
            "drop" => BOp::Drop { i: u("i")? as u8 },
            "cost_loop" => BOp::CostLoop { i: u("i")? as u8, cost: u("cost")? as u8, salt: h("salt")?, key: h("key")? },
            "keying_equiv" => BOp::KeyingEquiv { key: h("key")? },
            "zero_salt_equiv" => BOp::ZeroSaltEquiv { i: u("i")? as u8, zeros: u("zeros")? as u16, key: h("key")? },
            "huge_input" => BOp::Huge { i: u("i")? as u8, form: u("form")? as u8, head: h("head")?, extra: u("extra")? as u16, other: h("other")? },
            _ => return None,
        })
    }
    fn kind(&self) -> &'static str {
        match self {
            BOp::Init { .. } => "init",
            BOp::Expand { .. } => "expand",
            BOp::Salted { .. } => "salted",
            BOp::Encrypt { .. } => "encrypt",
            BOp::TraitBlock { .. } => "trait_block",
            BOp::Clone { .. } => "clone",
            BOp::Relocate { .. } => "relocate",
            BOp::Drop { .. } => "drop",
            BOp::CostLoop { .. } => "cost_loop",
            BOp::KeyingEquiv { .. } => "keying_equiv",
            BOp::ZeroSaltEquiv { .. } => "zero_salt_equiv",
            BOp::Huge { .. } => "huge_input",
        }
    }
}

const NSTATES: usize = 4;

struct BWorld<'a> {
    pi: &'a PiConsts,
    real: Vec<Option<Box<Blowfish>>>,
    model: Vec<Option<Model>>,
    probes: u64,
    step: usize,
}

#[derive(Clone, Debug)]
pub struct BViolation {
    pub class: String,
    pub step: usize,
    pub detail: String,
}

fn probe_pairs(n: usize, salt: u64) -> Vec<[u32; 2]> {
    let mut p = Prng::new(0xBC14 ^ salt);
    (0..n).map(|_| { let x = p.next(); [x as u32, (x >> 32) as u32] }).collect()
}

impl<'a> BWorld<'a> {
    fn new(pi: &'a PiConsts) -> Self {
        BWorld { pi, real: (0..NSTATES).map(|_| None).collect(), model: vec![None; NSTATES], probes: 0, step: 0 }
    }

    fn compare(&mut self, i: usize, n: usize, what: &str) -> Result<(), BViolation> {
        // under the interpreter a probe costs ~1 ms: a few per step, 48 at the end
        let n = if cfg!(miri) { n.div_ceil(86).min(48).max(3) } else { n };
        if let (Some(r), Some(m)) = (&self.real[i], &self.model[i]) {
            for lr in probe_pairs(n, self.step as u64 * 131 + i as u64) {
                self.probes += 1;
                let a = r.bc_encrypt(lr);
                let b = m.encrypt(lr);
                if a != b {
                    return Err(BViolation {
                        class: "state-diverged".into(),
                        step: self.step,
                        detail: format!("after {} the state of instance {} differs from the reference: bc_encrypt({:08x},{:08x}) = {:08x},{:08x}, reference {:08x},{:08x}", what, i, lr[0], lr[1], a[0], a[1], b[0], b[1]),
                    });
                }
            }
        }
        Ok(())
    }

    fn apply(&mut self, op: &BOp) -> Result<bool, BViolation> {
        let r = self.apply_inner(op);
        self.step += 1;
        r
    }

    fn apply_inner(&mut self, op: &BOp) -> Result<bool, BViolation> {
        let idx = |i: u8| (i as usize) % NSTATES;
        match op {
            BOp::Init { i } => {
                let i = idx(*i);
                self.real[i] = Some(Box::new(Blowfish::bc_init_state()));
                self.model[i] = Some(Model::init(self.pi));
                self.compare(i, 64, "bc_init_state")?;
            }
            BOp::Expand { i, key } => {
                let i = idx(*i);
                if key.is_empty() || self.real[i].is_none() {
                    return Ok(false);
                }
                self.real[i].as_mut().unwrap().bc_expand_key(key);
                self.model[i].as_mut().unwrap().expand(None, key);
                self.compare(i, 64, "bc_expand_key")?;
            }
            BOp::Huge { i, form, head, extra, other } => {
                let i = idx(*i);
                if cfg!(miri) || cfg!(not(target_pointer_width = "64")) || other.is_empty() || self.real[i].is_none() {
                    return Ok(false);
                }
                #[cfg(target_pointer_width = "64")]
                {
                    let n = (1usize << 32) + *extra as usize;
                    let mut big: Vec<u8> = Vec::new();
                    if big.try_reserve_exact(n).is_err() {
                        return Ok(false); // the machine refuses the mapping: nothing to learn here
                    }
                    // zero pages from the allocator, mapped lazily
                    big = vec![0u8; n];
                    big[..head.len()].copy_from_slice(head);
                    let (real, model) = (self.real[i].as_mut().unwrap(), self.model[i].as_mut().unwrap());
                    match form % 3 {
                        0 => {
                            real.bc_expand_key(&big);
                            model.expand(None, &big);
                        }
                        1 => {
                            real.salted_expand_key(&big, other);
                            model.expand(Some(&big), other);
                        }
                        _ => {
                            real.salted_expand_key(other, &big);
                            model.expand(Some(other), &big);
                        }
                    }
                }
                self.compare(i, 64, "an expansion with an input longer than 2^32 bytes")?;
            }
            BOp::Salted { i, salt, key } => {
                let i = idx(*i);
                if key.is_empty() || salt.is_empty() || self.real[i].is_none() {
                    return Ok(false);
                }
                self.real[i].as_mut().unwrap().salted_expand_key(salt, key);
                self.model[i].as_mut().unwrap().expand(Some(salt), key);
                self.compare(i, 64, "salted_expand_key")?;
            }
            BOp::Encrypt { i, lr } => {
                let i = idx(*i);
                if let (Some(r), Some(m)) = (&self.real[i], &self.model[i]) {
                    let (a, b) = (r.bc_encrypt(*lr), m.encrypt(*lr));
                    if a != b {
                        return Err(BViolation { class: "encrypt".into(), step: self.step, detail: format!("bc_encrypt({:08x},{:08x}) = {:08x},{:08x}, reference {:08x},{:08x}", lr[0], lr[1], a[0], a[1], b[0], b[1]) });
                    }
                } else {
                    return Ok(false);
                }
            }
            BOp::TraitBlock { i, dec, block } => {
                let i = idx(*i);
                if let (Some(r), Some(m)) = (&self.real[i], &self.model[i]) {
                    let mut b = cipher::Block::<Blowfish>::default();
                    b.copy_from_slice(block);
                    let lr = [u32::from_be_bytes(block[..4].try_into().unwrap()), u32::from_be_bytes(block[4..].try_into().unwrap())];
                    let want = if *dec { m.decrypt(lr) } else { m.encrypt(lr) };
                    if *dec {
                        r.decrypt_block(&mut b);
                    } else {
                        r.encrypt_block(&mut b);
                    }
                    let mut w = [0u8; 8];
                    w[..4].copy_from_slice(&want[0].to_be_bytes());
                    w[4..].copy_from_slice(&want[1].to_be_bytes());
                    if b[..] != w[..] {
                        return Err(BViolation { class: "trait-block".into(), step: self.step, detail: format!("{} of {} on the evolving state = {}, reference {}", if *dec { "decrypt_block" } else { "encrypt_block" }, hex(block), hex(&b), hex(&w)) });
                    }
                } else {
                    return Ok(false);
                }
            }
            BOp::Clone { i, j } => {
                let (i, j) = (idx(*i), idx(*j));
                if i == j || self.real[i].is_none() {
                    return Ok(false);
                }
                let c = self.real[i].as_ref().unwrap().clone();
                self.real[j] = Some(c);
                self.model[j] = self.model[i].clone();
                self.compare(j, 64, "clone")?;
            }
            BOp::Relocate { i } => {
                let i = idx(*i);
                match self.real[i].take() {
                    Some(b) => {
                        let moved: Blowfish = *b;
                        let _pad = vec![0u8; 4096 + self.step * 16];
                        self.real[i] = Some(Box::new(moved));
                        self.compare(i, 16, "relocate")?;
                    }
                    None => return Ok(false),
                }
            }
            BOp::Drop { i } => {
                let i = idx(*i);
                if self.real[i].is_none() {
                    return Ok(false);
                }
                self.real[i] = None;
                self.model[i] = None;
            }
            BOp::CostLoop { i, cost, salt, key } => {
                let i = idx(*i);
                if key.is_empty() || salt.is_empty() || self.real[i].is_none() {
                    return Ok(false);
                }
                self.real[i].as_mut().unwrap().salted_expand_key(salt, key);
                self.model[i].as_mut().unwrap().expand(Some(salt), key);
                for _ in 0..(1u32 << cost.min(&12)) {
                    self.real[i].as_mut().unwrap().bc_expand_key(key);
                    self.real[i].as_mut().unwrap().bc_expand_key(salt);
                    self.model[i].as_mut().unwrap().expand(None, key);
                    self.model[i].as_mut().unwrap().expand(None, salt);
                }
                self.compare(i, 256, "the bcrypt cost loop")?;
            }
            BOp::KeyingEquiv { key } => {
                if key.len() < 4 || key.len() > 56 {
                    return Ok(false);
                }
                let a = match Blowfish::new_from_slice(key) {
                    Ok(a) => a,
                    Err(_) => return Ok(false),
                };
                let mut b = Blowfish::bc_init_state();
                b.bc_expand_key(key);
                let mut c = Blowfish::bc_init_state();
                c.salted_expand_key(&[0u8; 16], key);
                let mut m = Model::init(self.pi);
                m.expand(None, key);
                for lr in probe_pairs(256, 77) {
                    self.probes += 1;
                    let (x, y, z, w) = (a.bc_encrypt(lr), b.bc_encrypt(lr), c.bc_encrypt(lr), m.encrypt(lr));
                    if x != y || x != z || x != w {
                        return Err(BViolation { class: "keying-equivalence".into(), step: self.step, detail: format!("key {}: new_from_slice / init+bc_expand_key / init+salted_expand_key(0^16) / reference give {:08x?} {:08x?} {:08x?} {:08x?} on {:08x?}", hex(key), x, y, z, w, lr) });
                    }
                }
            }
            BOp::ZeroSaltEquiv { i, zeros, key } => {
                let i = idx(*i);
                if key.is_empty() || *zeros == 0 || self.real[i].is_none() {
                    return Ok(false);
                }
                let mut a = (**self.real[i].as_ref().unwrap()).clone();
                let mut b = a.clone();
                a.bc_expand_key(key);
                b.salted_expand_key(&vec![0u8; *zeros as usize], key);
                for lr in probe_pairs(256, 99) {
                    self.probes += 1;
                    if a.bc_encrypt(lr) != b.bc_encrypt(lr) {
                        return Err(BViolation { class: "zero-salt-equivalence".into(), step: self.step, detail: format!("from the state of instance {}: bc_expand_key(key) and salted_expand_key(0^{}, key) differ, key {}", i, zeros, hex(key)) });
                    }
                }
            }
        }
        Ok(true)
    }

    fn final_check(&mut self) -> Result<(), BViolation> {
        for i in 0..NSTATES {
            self.compare(i, 4096, "the whole history")?;
        }
        Ok(())
    }
}

fn gen_len(rng: &mut Prng) -> usize {
    // biased to lengths not divisible by 4, so the cyclic reader wraps mid-word
    match rng.below(10) {
        0 => 1,
        1 => 72,
        2 => rng.range(73, 300) as usize,
        3 => 4 * rng.range(1, 18) as usize,
        _ => {
            let l = rng.range(1, 72) as usize;
            if l % 4 == 0 { l + 1 } else { l }
        }
    }
}

/// Key / salt bytes: mostly random, but also the structured shapes a shortcut could be keyed on
/// (all zero, zeros with one non-zero byte anywhere - including beyond the 72 bytes one pass of the
/// P-array consumes -, a zero prefix of some length, a short period repeated, one special value).
fn gen_bytes(rng: &mut Prng, len: usize) -> Vec<u8> {
    match rng.below(20) {
        0 => vec![0u8; len],
        1 | 2 => {
            let mut v = vec![0u8; len];
            let i = rng.below(len as u64) as usize;
            v[i] = 1 + rng.below(255) as u8;
            v
        }
        3 | 4 => {
            // zero prefix (often exactly 72, 64, 16 or 4 bytes), random tail
            let mut v = rng.bytes(len);
            let k = (*rng.pick(&[72usize, 72, 64, 18, 16, 8, 4, 1])).min(len.saturating_sub(1));
            for b in v.iter_mut().take(k) {
                *b = 0;
            }
            if len > k {
                v[len - 1] |= 1;
            }
            v
        }
        5 => {
            // a short period repeated
            let p = rng.range(1, 5) as usize;
            let base = rng.bytes(p);
            (0..len).map(|i| base[i % p]).collect()
        }
        6 => vec![*rng.pick(&[0xffu8, 0x80, 0x01, 0x7f]); len],
        _ => rng.bytes(len),
    }
}

fn gen_ops(rng: &mut Prng, max_cost: u8) -> Vec<BOp> {
    let n = rng.range(4, 40) as usize;
    let mut ops = vec![BOp::Init { i: 0 }];
    let w: [u32; 12] = [6, 14, 14, 10, 8, 5, 4, 3, 3, 3, 4, 1];
    let mut w2 = w;
    for x in w2.iter_mut() {
        if rng.chance(1, 5) {
            *x = 0;
        }
    }
    w2[0] = w2[0].max(1);
    for _ in 0..n {
        let i = rng.below(NSTATES as u64) as u8;
        let op = match rng.weighted(&w2) {
            0 => BOp::Init { i },
            1 => BOp::Expand { i, key: { let l = gen_len(rng); gen_bytes(rng, l) } },
            2 => BOp::Salted { i, salt: { let l = if rng.chance(1, 2) { 16 } else { gen_len(rng) }; gen_bytes(rng, l) }, key: { let l = gen_len(rng); gen_bytes(rng, l) } },
            3 => BOp::Encrypt { i, lr: [rng.next() as u32, rng.next() as u32] },
            4 => BOp::TraitBlock { i, dec: rng.chance(1, 2), block: rng.next().to_le_bytes() },
            5 => BOp::Clone { i, j: rng.below(NSTATES as u64) as u8 },
            6 => BOp::Relocate { i },
            7 => BOp::Drop { i },
            8 => BOp::CostLoop { i, cost: rng.below(max_cost as u64 + 1) as u8, salt: { let l = if rng.chance(2, 3) { 16 } else { gen_len(rng) }; gen_bytes(rng, l) }, key: { let l = gen_len(rng); gen_bytes(rng, l) } },
            9 => BOp::KeyingEquiv { key: { let l = rng.range(4, 56) as usize; rng.bytes(l) } },
            11 => BOp::Huge { i, form: rng.below(3) as u8, head: { let l = rng.range(1, 80) as usize; rng.bytes(l) }, extra: *rng.pick(&[1u16, 2, 3, 5, 16, 71, 72, 73, 100, 4167, 4168, 5000]), other: { let l = gen_len(rng); gen_bytes(rng, l) } },
            _ => BOp::ZeroSaltEquiv { i, zeros: *rng.pick(&[1u16, 3, 4, 16, 17, 40, 72, 73, 100, 300]), key: { let l = gen_len(rng); gen_bytes(rng, l) } },
        };
        ops.push(op);
    }
    ops
}

/// Short histories for the interpreter engines (other byte orders / pointer widths): the same generator, cost
/// loops of 2^0 rounds, truncated to `max_ops` operations.
pub fn export_lists(seed: u64, count: u64, max_ops: usize) -> Vec<Value> {
    (0..count)
        .map(|i| {
            let mut rng = Prng::new(run_seed(seed ^ 0xC14_E7, i));
            let mut ops = gen_ops(&mut rng, 0);
            ops.truncate(max_ops.max(2));
            json!({"ops": ops.iter().map(|o| o.to_json()).collect::<Vec<_>>()})
        })
        .collect()
}

/// Interpreter entry: `pi_hex`, then (label, json) pairs. Prints one `@c14` line per list; returns the exit code.
pub fn exec_lists(pi_hex: &str, pairs: &[String]) -> i32 {
    let pi = PiConsts::from_hex(pi_hex);
    let mut rc = 0;
    for pair in pairs.chunks(2) {
        if pair.len() < 2 {
            die("c14 <pi hex> (<label> <json>)...");
        }
        let v: Value = serde_json::from_str(&pair[1]).unwrap_or_else(|e| die(&format!("parse {}: {}", pair[0], e)));
        let mut ops = Vec::new();
        for o in v.get("ops").and_then(|x| x.as_array()).unwrap_or_else(|| die("no ops")) {
            ops.push(BOp::from_json(o).unwrap_or_else(|| die("bad op")));
        }
        let (viol, probes, kinds) = execute(&pi, &ops);
        match viol {
            Some(x) => {
                println!("@c14 {} {}", pair[0], json!({"status": "violation", "class": x.class, "step": x.step, "detail": x.detail, "probes": probes}));
                rc = 1;
            }
            None => println!("@c14 {} {}", pair[0], json!({"status": "ok", "ops": kinds.len(), "probes": probes})),
        }
    }
    rc
}

fn execute(pi: &PiConsts, ops: &[BOp]) -> (Option<BViolation>, u64, Vec<&'static str>) {
    let mut w = BWorld::new(pi);
    let mut kinds = Vec::new();
    for op in ops {
        match w.apply(op) {
            Ok(true) => kinds.push(op.kind()),
            Ok(false) => {}
            Err(v) => return (Some(v), w.probes, kinds),
        }
    }
    if let Err(v) = w.final_check() {
        return (Some(v), w.probes, kinds);
    }
    (None, w.probes, kinds)
}

fn shrink(pi: &PiConsts, ops: &[BOp], v: &BViolation) -> (Vec<BOp>, BViolation) {
    let mut ops: Vec<BOp> = ops[..(v.step + 1).min(ops.len())].to_vec();
    let mut best = v.clone();
    let test = |c: &[BOp]| -> Option<BViolation> {
        match execute(pi, c).0 {
            Some(x) if x.class == v.class => Some(x),
            _ => None,
        }
    };
    if test(&ops).is_none() {
        ops = ops.to_vec();
    }
    let mut changed = true;
    while changed {
        changed = false;
        let mut i = ops.len();
        while i > 0 {
            i -= 1;
            if ops.len() == 1 {
                break;
            }
            let mut c = ops.clone();
            c.remove(i);
            if let Some(x) = test(&c) {
                ops = c;
                best = x;
                changed = true;
            }
        }
    }
    // shorter keys / salts, lower cost
    for i in 0..ops.len() {
        loop {
            let mut c = ops.clone();
            let ok = match &mut c[i] {
                BOp::Expand { key, .. } | BOp::KeyingEquiv { key } | BOp::ZeroSaltEquiv { key, .. } if key.len() > 1 => { key.pop(); true }
                BOp::Salted { salt, key, .. } | BOp::CostLoop { salt, key, .. } if key.len() > 1 || salt.len() > 1 => {
                    if key.len() > 1 { key.pop(); } else { salt.pop(); }
                    true
                }
                _ => false,
            };
            if !ok {
                break;
            }
            match test(&c) {
                Some(x) => { ops = c; best = x; }
                None => break,
            }
        }
        if let BOp::CostLoop { cost, .. } = &ops[i] {
            for k in 0..*cost {
                let mut c = ops.clone();
                if let BOp::CostLoop { cost: cc, .. } = &mut c[i] { *cc = k; }
                if let Some(x) = test(&c) { ops = c; best = x; break; }
            }
        }
    }
    (ops, best)
}

fn replay_value(seed: u64, ops: &[BOp], v: &BViolation, meta: Value) -> Value {
    let mut j = json!({"format": "block-ciphers-sim-replay/1", "property": "C14", "engine": "c14", "seed": seed,
           "ops": ops.iter().map(|o| o.to_json()).collect::<Vec<_>>(),
           "violation": {"property": "C14", "class": v.class, "step": v.step, "detail": v.detail}, "meta": meta});
    if !crate::engine::build_label().is_empty() {
        j["build"] = json!(crate::engine::build_label());
    }
    j
}

pub fn main(args: &[String]) {
    let t0 = Instant::now();
    let tier = arg(args, "--tier").unwrap_or("quick").to_string();
    let seed: u64 = arg(args, "--seed").and_then(|s| s.parse().ok()).unwrap_or(20261003);
    let evidence = arg(args, "--evidence").unwrap_or("/verif/evidence/C14.json").to_string();
    let replay_dir = arg(args, "--replay-dir").unwrap_or("/verif/replays").to_string();
    let pi_path = arg(args, "--pi").unwrap_or("/verif/.build/pi_hex.txt").to_string();
    let total: u64 = arg(args, "--total").and_then(|s| s.parse().ok()).unwrap_or(if tier == "quick" { 4000 } else { 400_000 });
    let workers: u64 = arg(args, "--workers").and_then(|s| s.parse().ok()).unwrap_or(16);
    let max_cost: u8 = if tier == "quick" { 5 } else { 9 };
    println!("sim-native c14 tier={} VERIF_SEED={} runs={} workers={}", tier, seed, total, workers);
    let pi = PiConsts::load(&pi_path);
    // independent sanity anchor for the derived constants: the classic Blowfish test vector
    {
        let mut m = Model::init(&pi);
        m.expand(None, &[0u8; 8]);
        if m.encrypt([0, 0]) != [0x4EF9_9745, 0x6198_DD78] {
            die("reference model does not reproduce the published Blowfish vector (key 0^64, pt 0^64 -> 4EF997456198DD78)");
        }
    }
    struct Part {
        runs: u64,
        probes: u64,
        digests: HashSet<u64>,
        kinds: std::collections::BTreeMap<&'static str, u64>,
        viol: Vec<(u64, u64, Vec<BOp>, BViolation)>,
        samples: Vec<Value>,
        wrap_midword: u64,
        long_inputs: u64,
    }
    let parts: Vec<Part> = std::thread::scope(|sc| {
        let hs: Vec<_> = (0..workers)
            .map(|w| {
                let pi = &pi;
                sc.spawn(move || {
                    let mut p = Part { runs: 0, probes: 0, digests: HashSet::new(), kinds: Default::default(), viol: vec![], samples: vec![], wrap_midword: 0, long_inputs: 0 };
                    let mut i = w;
                    while i < total {
                        let rs = run_seed(seed ^ 0xC14, i);
                        let mut rng = Prng::new(rs);
                        let ops = gen_ops(&mut rng, max_cost);
                        let (v, probes, kinds) = execute(pi, &ops);
                        p.runs += 1;
                        p.probes += probes;
                        let mut d = Digest::default();
                        for k in &kinds {
                            d.str(k);
                            *p.kinds.entry(k).or_insert(0) += 1;
                        }
                        for op in &ops {
                            match op {
                                BOp::Expand { key, .. } | BOp::Salted { key, .. } | BOp::CostLoop { key, .. } => {
                                    d.bytes(key);
                                    if key.len() % 4 != 0 { p.wrap_midword += 1; }
                                    if key.len() > 72 { p.long_inputs += 1; }
                                }
                                _ => {}
                            }
                        }
                        if kinds.iter().filter(|k| matches!(**k, "expand" | "salted" | "cost_loop")).count() >= 2 {
                            p.digests.insert(d.finish());
                        }
                        if p.samples.len() < 1 && i % 97 == 13 {
                            p.samples.push(json!({"run": i, "seed": rs, "history": ops.iter().map(|o| o.to_json()).collect::<Vec<_>>()}));
                        }
                        if let Some(v) = v {
                            if p.viol.len() < 2 {
                                p.viol.push((i, rs, ops, v));
                            }
                        }
                        i += workers;
                    }
                    p
                })
            })
            .collect();
        hs.into_iter().map(|h| h.join().unwrap_or_else(|_| die("c14 worker panicked"))).collect()
    });
    let mut runs = 0;
    let mut probes = 0;
    let mut digests: HashSet<u64> = HashSet::new();
    let mut kinds: std::collections::BTreeMap<&'static str, u64> = Default::default();
    let mut samples = Vec::new();
    let mut viols = Vec::new();
    let (mut wrap, mut long) = (0u64, 0u64);
    for p in parts {
        runs += p.runs;
        probes += p.probes;
        digests.extend(p.digests);
        for (k, v) in p.kinds {
            *kinds.entry(k).or_insert(0) += v;
        }
        if samples.len() < 3 {
            samples.extend(p.samples);
        }
        viols.extend(p.viol);
        wrap += p.wrap_midword;
        long += p.long_inputs;
    }
    let mut out_v = Vec::new();
    let mut seen = HashSet::new();
    for (i, rs, ops, v) in &viols {
        if !seen.insert(v.class.clone()) {
            continue;
        }
        let _ = std::fs::create_dir_all(&replay_dir);
        let base = format!("{}/C14-{}{}-{}", replay_dir, if crate::engine::build_label().is_empty() { String::new() } else { format!("{}-", crate::engine::build_label()) }, seed, i);
        let _ = std::fs::write(format!("{}.orig.json", base), serde_json::to_string_pretty(&replay_value(*rs, ops, v, json!({"run": i, "minimised": false}))).unwrap());
        let (mops, mv) = shrink(&pi, ops, v);
        let path = format!("{}.min.json", base);
        let _ = std::fs::write(&path, serde_json::to_string_pretty(&replay_value(*rs, &mops, &mv, json!({"run": i, "minimised": true, "ops_before": ops.len(), "ops_after": mops.len()}))).unwrap());
        out_v.push((path, mv));
    }
    let wall = t0.elapsed().as_secs_f64();
    let ev = json!({
        "property_id": "C14", "tier": tier, "seed": seed, "level": "exploration",
        "coverage": {
            "evaluations": runs,
            "distinct_nontrivial": digests.len(),
            "rule": "one evaluation = one seeded history of 5..41 operations over up to 4 coexisting eksblowfish states (init, expand, salted expand, raw encrypt, trait-level block calls on the evolving state, clone, relocate, drop, the bcrypt cost loop up to 2^cost rounds, keying/zero-salt equivalences), every step compared with the reference model through 64 probe encryptions and 4096 at the end. Non-trivial = at least two state-changing expansions were applied; distinct = distinct (operation-kind sequence, key bytes) digests",
            "samples": samples,
            "exhaustive": false,
            "probe_encryptions": probes,
            "operations_applied": kinds,
            "reach_probes": {"expansion_inputs_with_len_not_multiple_of_4": wrap, "expansion_inputs_longer_than_72": long, "max_cost": max_cost},
            "faults_fired": {"relocate": kinds.get("relocate").copied().unwrap_or(0), "clone_then_diverge": kinds.get("clone").copied().unwrap_or(0), "drop_now": kinds.get("drop").copied().unwrap_or(0)},
            "simulated_time": "n/a - the code under test reads no clock",
            "runs_per_hour": (runs as f64 / wall.max(1e-9) * 3600.0) as u64,
            "components": {"real": ["blowfish (bcrypt + zeroize features) from the working tree"], "stub": [], "reference_model": "eksblowfish from the Provos-Mazieres description; constants derived from pi by gen/pi_hex.py and anchored on the published Blowfish test vector"},
        },
        "assumptions": ["state equality is observational (probe encryptions), which leaves a single wrong S-box word undetected with probability < 2^-300 per run",
                        "there is no schedule or fault dimension beyond the operation history, clone, relocation and drop: this is model-based checking of a state machine over seeded histories"],
        "wall_s": wall,
        "violations": out_v.len(),
    });
    if let Some(dir) = std::path::Path::new(&evidence).parent() {
        let _ = std::fs::create_dir_all(dir);
    }
    std::fs::write(&evidence, serde_json::to_string_pretty(&ev).unwrap()).unwrap_or_else(|e| die(&format!("write evidence: {}", e)));
    println!("runs={} distinct_nontrivial={} probe_encryptions={} wall={:.1}s", runs, digests.len(), probes, wall);
    if !out_v.is_empty() {
        for (p, v) in &out_v {
            println!("{{\"class\":\"{}\",\"step\":{},\"detail\":{}}}", v.class, v.step, serde_json::to_string(&v.detail).unwrap());
            println!("VIOLATION property=C14 replay={}", p);
        }
        std::process::exit(1);
    }
    println!("OK property=C14 held on {} runs", runs);
}

pub fn replay(v: &Value) {
    let pi_path = std::env::var("VERIF_PI").unwrap_or_else(|_| "/verif/.build/pi_hex.txt".to_string());
    let pi = PiConsts::load(&pi_path);
    let mut ops = Vec::new();
    for o in v.get("ops").and_then(|x| x.as_array()).unwrap_or_else(|| die("no ops")) {
        ops.push(BOp::from_json(o).unwrap_or_else(|| die("bad op")));
    }
    match execute(&pi, &ops).0 {
        Some(x) => {
            println!("{}", x.detail);
            let wc = v["violation"]["class"].as_str().unwrap_or("");
            let ws = v["violation"]["step"].as_u64().unwrap_or(u64::MAX);
            if x.class == wc && x.step as u64 == ws {
                println!("REPRODUCED exactly (class {}, step {})", x.class, x.step);
            } else {
                println!("REPRODUCED a C14 violation but not the recorded one");
            }
            println!("VIOLATION property=C14 replay=<this file>");
            std::process::exit(1);
        }
        None => println!("NOT-REPRODUCED: {} operations applied, state equals the reference throughout", ops.len()),
    }
}
