//! Registry of every cipher type in every linked build variant, type-erased
//! behind function pointers so that the simulator owns instance storage
//! (slots), can relocate and drop instances at will and can apply one logical
//! operation to every realisation of a cipher.

use cipher::{
    Block, BlockCipherDecBackend, BlockCipherDecClosure, BlockCipherDecrypt, BlockCipherEncBackend,
    BlockCipherEncClosure, BlockCipherEncrypt, BlockSizeUser, Key, KeyInit, KeySizeUser,
    inout::{InOut, InOutBuf},
    typenum::Unsigned,
};
use core::marker::PhantomData;
use core::{ptr, slice};

#[derive(Clone, Copy, PartialEq, Eq, Debug, Hash, PartialOrd, Ord)]
pub enum Role {
    Both,
    Enc,
    Dec,
}

impl Role {
    pub fn name(self) -> &'static str {
        match self {
            Role::Both => "both",
            Role::Enc => "enc",
            Role::Dec => "dec",
        }
    }
    pub fn parse(s: &str) -> Option<Role> {
        Some(match s {
            "both" => Role::Both,
            "enc" => Role::Enc,
            "dec" => Role::Dec,
            _ => return None,
        })
    }
    pub fn can(self, d: Dir) -> bool {
        matches!((self, d), (Role::Both, _) | (Role::Enc, Dir::Enc) | (Role::Dec, Dir::Dec))
    }
}

#[derive(Clone, Copy, PartialEq, Eq, Debug, Hash)]
pub enum Dir {
    Enc,
    Dec,
}

impl Dir {
    pub fn name(self) -> &'static str {
        match self {
            Dir::Enc => "enc",
            Dir::Dec => "dec",
        }
    }
    pub fn parse(s: &str) -> Option<Dir> {
        Some(match s {
            "enc" => Dir::Enc,
            "dec" => Dir::Dec,
            _ => return None,
        })
    }
}

/// The six public call shapes of `BlockCipherEncrypt` / `BlockCipherDecrypt`.
#[derive(Clone, Copy, PartialEq, Eq, Debug, Hash)]
pub enum Shape {
    /// `encrypt_block(&mut block)` — in place
    Block,
    /// `encrypt_block_b2b(&in, &mut out)` — disjoint
    BlockB2b,
    /// `encrypt_block_inout(InOut)` — in == out or disjoint
    BlockInout,
    /// `encrypt_blocks(&mut [block])` — in place
    Blocks,
    /// `encrypt_blocks_b2b(&[in], &mut [out])` — disjoint
    BlocksB2b,
    /// `encrypt_blocks_inout(InOutBuf)` — in == out or disjoint
    BlocksInout,
    /// the way block modes drive a cipher: `encrypt_with_backend(closure)`, the closure calls
    /// `backend.encrypt_block_inplace` on each of the n blocks — in place
    BackendBlockInplace,
    /// closure: `encrypt_par_blocks_inplace` on every full batch, `encrypt_tail_blocks_inplace` on the rest — in place
    BackendBlocksInplace,
    /// closure: `encrypt_par_blocks(InOut)` on every full batch, `encrypt_tail_blocks(InOutBuf)` on the rest —
    /// in == out or disjoint
    BackendBlocksInout,
}

pub const SHAPES: [Shape; 9] = [
    Shape::Block,
    Shape::BlockB2b,
    Shape::BlockInout,
    Shape::Blocks,
    Shape::BlocksB2b,
    Shape::BlocksInout,
    Shape::BackendBlockInplace,
    Shape::BackendBlocksInplace,
    Shape::BackendBlocksInout,
];

impl Shape {
    pub fn name(self) -> &'static str {
        match self {
            Shape::Block => "block",
            Shape::BlockB2b => "block_b2b",
            Shape::BlockInout => "block_inout",
            Shape::Blocks => "blocks",
            Shape::BlocksB2b => "blocks_b2b",
            Shape::BlocksInout => "blocks_inout",
            Shape::BackendBlockInplace => "backend_block_inplace",
            Shape::BackendBlocksInplace => "backend_blocks_inplace",
            Shape::BackendBlocksInout => "backend_blocks_inout",
        }
    }
    pub fn parse(s: &str) -> Option<Shape> {
        SHAPES.iter().copied().find(|x| x.name() == s)
    }
    pub fn single(self) -> bool {
        matches!(self, Shape::Block | Shape::BlockB2b | Shape::BlockInout)
    }
    /// must in and out coincide?
    pub fn in_place_only(self) -> bool {
        matches!(self, Shape::Block | Shape::Blocks | Shape::BackendBlockInplace | Shape::BackendBlocksInplace)
    }
    /// must in and out be disjoint?
    pub fn disjoint_only(self) -> bool {
        matches!(self, Shape::BlockB2b | Shape::BlocksB2b)
    }
}

pub type NewFn = unsafe fn(*mut u8, &[u8]) -> bool;
pub type CloneFn = unsafe fn(*const u8, *mut u8);
/// `dst.clone_from(&src)`: (src, dst), both live values of the same type
pub type CloneFromFn = unsafe fn(*const u8, *mut u8);
pub type DropFn = unsafe fn(*mut u8);
pub type CallFn = unsafe fn(*const u8, Shape, *const u8, *mut u8, usize);
pub type ParFn = unsafe fn(*const u8) -> usize;
pub type ConvRefFn = unsafe fn(*const u8, *mut u8);
pub type ConvValFn = unsafe fn(*mut u8, *mut u8);

#[derive(Clone)]
pub struct TypeInfo {
    pub id: usize,
    /// `variant::Type`
    pub name: String,
    pub type_name: &'static str,
    pub family: &'static str,
    pub variant: &'static str,
    pub role: Role,
    pub block: usize,
    pub key_size: usize,
    pub size: usize,
    pub align: usize,
    /// built with the crate's `zeroize` feature
    pub zeroize: bool,
    /// goes through the CPU-feature detection cache
    pub detect: bool,
    pub send: bool,
    pub sync: bool,
    pub new_from_slice: NewFn,
    pub new_fixed: NewFn,
    pub clone: Option<CloneFn>,
    pub clone_from: Option<CloneFromFn>,
    pub drop: DropFn,
    /// move the live value out of the slot into a `Box` and drop the box (the storage dies with the drop, so
    /// the optimiser may treat the wipe's stores as dead unless they are volatile)
    pub box_drop: DropFn,
    pub enc: Option<CallFn>,
    pub dec: Option<CallFn>,
    pub enc_par: Option<ParFn>,
    pub dec_par: Option<ParFn>,
}

impl TypeInfo {
    pub fn call(&self, d: Dir) -> Option<CallFn> {
        match d {
            Dir::Enc => self.enc,
            Dir::Dec => self.dec,
        }
    }
    pub fn par(&self, d: Dir) -> Option<ParFn> {
        match d {
            Dir::Enc => self.enc_par,
            Dir::Dec => self.dec_par,
        }
    }
}

#[derive(Clone)]
pub struct Conv {
    pub from: usize,
    pub to: usize,
    pub by_ref: ConvRefFn,
    pub by_val: ConvValFn,
}

/// One build variant's types for a family.
#[derive(Clone)]
pub struct VariantSet {
    pub variant: &'static str,
    pub both: usize,
    pub enc: Option<usize>,
    pub dec: Option<usize>,
}

impl VariantSet {
    pub fn ty(&self, r: Role) -> Option<usize> {
        match r {
            Role::Both => Some(self.both),
            Role::Enc => self.enc,
            Role::Dec => self.dec,
        }
    }
}

#[derive(Clone)]
pub struct Family {
    pub name: &'static str,
    pub krate: &'static str,
    pub block: usize,
    pub key_size: usize,
    /// key lengths accepted by `new_from_slice` that the generator samples from
    pub key_lens: Vec<usize>,
    pub variants: Vec<VariantSet>,
    /// has Enc/Dec halves and conversions
    pub split: bool,
}

pub struct Registry {
    pub types: Vec<TypeInfo>,
    pub convs: Vec<Conv>,
    pub families: Vec<Family>,
}

impl Registry {
    pub fn family(&self, name: &str) -> Option<usize> {
        self.families.iter().position(|f| f.name == name)
    }
    pub fn conv(&self, from: usize, to: usize) -> Option<&Conv> {
        self.convs.iter().find(|c| c.from == from && c.to == to)
    }
    pub fn type_by_name(&self, name: &str) -> Option<usize> {
        self.types.iter().position(|t| t.name == name)
    }
}

// ---------------------------------------------------------------------------
// type-erased generic bodies

pub unsafe fn g_new_from_slice<T: KeyInit>(slot: *mut u8, key: &[u8]) -> bool {
    match T::new_from_slice(key) {
        Ok(v) => {
            unsafe { ptr::write(slot as *mut T, v) };
            true
        }
        Err(_) => false,
    }
}

pub unsafe fn g_new_fixed<T: KeyInit>(slot: *mut u8, key: &[u8]) -> bool {
    match <&Key<T>>::try_from(key) {
        Ok(k) => {
            unsafe { ptr::write(slot as *mut T, T::new(k)) };
            true
        }
        Err(_) => false,
    }
}

pub unsafe fn g_clone<T: Clone>(src: *const u8, dst: *mut u8) {
    unsafe { ptr::write(dst as *mut T, (*(src as *const T)).clone()) }
}

pub unsafe fn g_clone_from<T: Clone>(src: *const u8, dst: *mut u8) {
    unsafe { (*(dst as *mut T)).clone_from(&*(src as *const T)) }
}

pub unsafe fn g_drop<T>(slot: *mut u8) {
    unsafe { ptr::drop_in_place(slot as *mut T) }
}

pub unsafe fn g_box_drop<T>(slot: *mut u8) {
    // the box escapes once (so the allocation itself cannot be optimised away), then dies here
    let mut b: Box<T> = Box::new(unsafe { ptr::read(slot as *const T) });
    core::hint::black_box(&mut *b as *mut T);
    drop(b);
}

pub unsafe fn g_enc<T: BlockCipherEncrypt>(this: *const u8, shape: Shape, inp: *const u8, outp: *mut u8, n: usize) {
    unsafe {
        let c = &*(this as *const T);
        let ib = inp as *const Block<T>;
        let ob = outp as *mut Block<T>;
        match shape {
            Shape::Block => c.encrypt_block(&mut *ob),
            Shape::BlockB2b => c.encrypt_block_b2b(&*ib, &mut *ob),
            Shape::BlockInout => c.encrypt_block_inout(InOut::from_raw(ib, ob)),
            Shape::Blocks => c.encrypt_blocks(slice::from_raw_parts_mut(ob, n)),
            Shape::BlocksB2b => c
                .encrypt_blocks_b2b(slice::from_raw_parts(ib, n), slice::from_raw_parts_mut(ob, n))
                .expect("equal lengths"),
            Shape::BlocksInout => c.encrypt_blocks_inout(InOutBuf::from_raw(ib, ob, n)),
            Shape::BackendBlockInplace | Shape::BackendBlocksInplace | Shape::BackendBlocksInout => {
                c.encrypt_with_backend(BackendRun::<T::BlockSize> { mode: shape, inp, outp, n, _p: PhantomData })
            }
        }
    }
}

pub unsafe fn g_dec<T: BlockCipherDecrypt>(this: *const u8, shape: Shape, inp: *const u8, outp: *mut u8, n: usize) {
    unsafe {
        let c = &*(this as *const T);
        let ib = inp as *const Block<T>;
        let ob = outp as *mut Block<T>;
        match shape {
            Shape::Block => c.decrypt_block(&mut *ob),
            Shape::BlockB2b => c.decrypt_block_b2b(&*ib, &mut *ob),
            Shape::BlockInout => c.decrypt_block_inout(InOut::from_raw(ib, ob)),
            Shape::Blocks => c.decrypt_blocks(slice::from_raw_parts_mut(ob, n)),
            Shape::BlocksB2b => c
                .decrypt_blocks_b2b(slice::from_raw_parts(ib, n), slice::from_raw_parts_mut(ob, n))
                .expect("equal lengths"),
            Shape::BlocksInout => c.decrypt_blocks_inout(InOutBuf::from_raw(ib, ob, n)),
            Shape::BackendBlockInplace | Shape::BackendBlocksInplace | Shape::BackendBlocksInout => {
                c.decrypt_with_backend(BackendRun::<T::BlockSize> { mode: shape, inp, outp, n, _p: PhantomData })
            }
        }
    }
}

/// A caller that drives the backend itself, as block-mode crates do (rank-2 closure passed to `*_with_backend`).
struct BackendRun<BS> {
    mode: Shape,
    inp: *const u8,
    outp: *mut u8,
    n: usize,
    _p: PhantomData<BS>,
}

impl<BS: cipher::crypto_common::BlockSizes> BlockSizeUser for BackendRun<BS> {
    type BlockSize = BS;
}

macro_rules! backend_run {
    ($Closure:ident, $Backend:ident, $block_ip:ident, $par_ip:ident, $tail_ip:ident, $par:ident, $tail:ident) => {
        impl<BS: cipher::crypto_common::BlockSizes> $Closure for BackendRun<BS> {
            fn call<B: $Backend<BlockSize = BS>>(self, be: &B) {
                unsafe {
                    let par = B::ParBlocksSize::USIZE.max(1);
                    let n = self.n;
                    let ib = self.inp as *const cipher::Block<B>;
                    let ob = self.outp as *mut cipher::Block<B>;
                    let full = n / par;
                    let rest = n - full * par;
                    match self.mode {
                        Shape::BackendBlockInplace => {
                            for i in 0..n {
                                be.$block_ip(&mut *ob.add(i));
                            }
                        }
                        Shape::BackendBlocksInplace => {
                            for c in 0..full {
                                be.$par_ip(&mut *(ob.add(c * par) as *mut cipher::ParBlocks<B>));
                            }
                            if rest > 0 {
                                be.$tail_ip(slice::from_raw_parts_mut(ob.add(full * par), rest));
                            }
                        }
                        _ => {
                            for c in 0..full {
                                be.$par(InOut::from_raw(ib.add(c * par) as *const cipher::ParBlocks<B>, ob.add(c * par) as *mut cipher::ParBlocks<B>));
                            }
                            if rest > 0 {
                                be.$tail(InOutBuf::from_raw(ib.add(full * par), ob.add(full * par), rest));
                            }
                        }
                    }
                }
            }
        }
    };
}
backend_run!(BlockCipherEncClosure, BlockCipherEncBackend, encrypt_block_inplace, encrypt_par_blocks_inplace, encrypt_tail_blocks_inplace, encrypt_par_blocks, encrypt_tail_blocks);
backend_run!(BlockCipherDecClosure, BlockCipherDecBackend, decrypt_block_inplace, decrypt_par_blocks_inplace, decrypt_tail_blocks_inplace, decrypt_par_blocks, decrypt_tail_blocks);

struct ParProbe<'a, BS>(&'a mut usize, PhantomData<BS>);

impl<BS: cipher::crypto_common::BlockSizes> BlockSizeUser for ParProbe<'_, BS> {
    type BlockSize = BS;
}
impl<BS: cipher::crypto_common::BlockSizes> BlockCipherEncClosure for ParProbe<'_, BS> {
    fn call<B: BlockCipherEncBackend<BlockSize = BS>>(self, _backend: &B) {
        *self.0 = B::ParBlocksSize::USIZE;
    }
}
impl<BS: cipher::crypto_common::BlockSizes> BlockCipherDecClosure for ParProbe<'_, BS> {
    fn call<B: BlockCipherDecBackend<BlockSize = BS>>(self, _backend: &B) {
        *self.0 = B::ParBlocksSize::USIZE;
    }
}

pub unsafe fn g_enc_par<T: BlockCipherEncrypt>(this: *const u8) -> usize {
    let mut n = 0usize;
    unsafe { (*(this as *const T)).encrypt_with_backend(ParProbe::<T::BlockSize>(&mut n, PhantomData)) };
    n
}

pub unsafe fn g_dec_par<T: BlockCipherDecrypt>(this: *const u8) -> usize {
    let mut n = 0usize;
    unsafe { (*(this as *const T)).decrypt_with_backend(ParProbe::<T::BlockSize>(&mut n, PhantomData)) };
    n
}

pub unsafe fn g_conv_ref<S, D>(src: *const u8, dst: *mut u8)
where
    for<'a> D: From<&'a S>,
{
    unsafe { ptr::write(dst as *mut D, D::from(&*(src as *const S))) }
}

pub unsafe fn g_conv_val<S, D: From<S>>(src: *mut u8, dst: *mut u8) {
    unsafe { ptr::write(dst as *mut D, D::from(ptr::read(src as *const S))) }
}

// Send/Sync probe: inherent associated consts win over trait ones when the
// bound holds (works for concrete types, which is all the macros below use).
pub struct Probe<T>(PhantomData<T>);
pub trait ProbeDefault {
    const SEND: bool = false;
    const SYNC: bool = false;
}
impl<T> ProbeDefault for Probe<T> {}
pub struct ProbeSend<T>(PhantomData<T>);
pub struct ProbeSync<T>(PhantomData<T>);
pub trait NotSend {
    const V: bool = false;
}
pub trait NotSync {
    const V: bool = false;
}
impl<T> NotSend for ProbeSend<T> {}
impl<T> NotSync for ProbeSync<T> {}
impl<T: Send> ProbeSend<T> {
    pub const V: bool = true;
}
impl<T: Sync> ProbeSync<T> {
    pub const V: bool = true;
}

fn base<T: KeyInit + BlockSizeUser>(
    type_name: &'static str,
    family: &'static str,
    variant: &'static str,
    role: Role,
    zeroize: bool,
    detect: bool,
    send: bool,
    sync: bool,
) -> TypeInfo {
    TypeInfo {
        id: 0,
        name: format!("{}::{}", variant, type_name),
        type_name,
        family,
        variant,
        role,
        block: <T as BlockSizeUser>::BlockSize::USIZE,
        key_size: <T as KeySizeUser>::KeySize::USIZE,
        size: core::mem::size_of::<T>(),
        align: core::mem::align_of::<T>(),
        zeroize,
        detect,
        send,
        sync,
        new_from_slice: g_new_from_slice::<T>,
        new_fixed: g_new_fixed::<T>,
        clone: None,
        clone_from: None,
        drop: g_drop::<T>,
        box_drop: g_box_drop::<T>,
        enc: None,
        dec: None,
        enc_par: None,
        dec_par: None,
    }
}

pub struct Flags {
    pub z: bool,
    pub detect: bool,
}

macro_rules! ti {
    (both, $t:ty, $tn:expr, $fam:expr, $var:expr, $fl:expr, $clone:tt) => {{
        let mut x = base::<$t>($tn, $fam, $var, Role::Both, $fl.z, $fl.detect, ProbeSend::<$t>::V, ProbeSync::<$t>::V);
        x.enc = Some(g_enc::<$t>);
        x.dec = Some(g_dec::<$t>);
        x.enc_par = Some(g_enc_par::<$t>);
        x.dec_par = Some(g_dec_par::<$t>);
        ti!(@clone x, $t, $clone);
        x
    }};
    (enc, $t:ty, $tn:expr, $fam:expr, $var:expr, $fl:expr, $clone:tt) => {{
        let mut x = base::<$t>($tn, $fam, $var, Role::Enc, $fl.z, $fl.detect, ProbeSend::<$t>::V, ProbeSync::<$t>::V);
        x.enc = Some(g_enc::<$t>);
        x.enc_par = Some(g_enc_par::<$t>);
        ti!(@clone x, $t, $clone);
        x
    }};
    (dec, $t:ty, $tn:expr, $fam:expr, $var:expr, $fl:expr, $clone:tt) => {{
        let mut x = base::<$t>($tn, $fam, $var, Role::Dec, $fl.z, $fl.detect, ProbeSend::<$t>::V, ProbeSync::<$t>::V);
        x.dec = Some(g_dec::<$t>);
        x.dec_par = Some(g_dec_par::<$t>);
        ti!(@clone x, $t, $clone);
        x
    }};
    (@clone $x:ident, $t:ty, clone) => {
        $x.clone = Some(g_clone::<$t>);
        $x.clone_from = Some(g_clone_from::<$t>);
    };
    (@clone $x:ident, $t:ty, noclone) => {};
}

struct Builder {
    reg: Registry,
}

impl Builder {
    fn add(&mut self, mut t: TypeInfo) -> usize {
        t.id = self.reg.types.len();
        self.reg.types.push(t);
        self.reg.types.len() - 1
    }
    fn fam(&mut self, name: &'static str, krate: &'static str, key_lens: &[usize], split: bool) -> usize {
        if let Some(i) = self.reg.family(name) {
            return i;
        }
        self.reg.families.push(Family {
            name,
            krate,
            block: 0,
            key_size: 0,
            key_lens: key_lens.to_vec(),
            variants: Vec::new(),
            split,
        });
        self.reg.families.len() - 1
    }
    fn single(&mut self, fam: &'static str, krate: &'static str, key_lens: &[usize], t: TypeInfo) {
        let f = self.fam(fam, krate, key_lens, false);
        let (b, k, v) = (t.block, t.key_size, t.variant);
        let id = self.add(t);
        let fm = &mut self.reg.families[f];
        fm.block = b;
        fm.key_size = k;
        fm.variants.push(VariantSet { variant: v, both: id, enc: None, dec: None });
    }
    #[allow(clippy::too_many_arguments)]
    fn triple(
        &mut self,
        fam: &'static str,
        krate: &'static str,
        both: TypeInfo,
        enc: TypeInfo,
        dec: TypeInfo,
        eb: (ConvRefFn, ConvValFn),
        ed: (ConvRefFn, ConvValFn),
    ) {
        let ks = both.key_size;
        let f = self.fam(fam, krate, &[ks], true);
        let (b, v) = (both.block, both.variant);
        let ib = self.add(both);
        let ie = self.add(enc);
        let id = self.add(dec);
        self.reg.convs.push(Conv { from: ie, to: ib, by_ref: eb.0, by_val: eb.1 });
        self.reg.convs.push(Conv { from: ie, to: id, by_ref: ed.0, by_val: ed.1 });
        let fm = &mut self.reg.families[f];
        fm.block = b;
        fm.key_size = ks;
        fm.variants.push(VariantSet { variant: v, both: ib, enc: Some(ie), dec: Some(id) });
    }
}

macro_rules! triple {
    ($b:expr, $fam:expr, $krate:expr, $k:ident, $B:ident, $E:ident, $D:ident, $fl:expr) => {{
        let fl = $fl;
        let var = stringify!($k);
        $b.triple(
            $fam,
            $krate,
            ti!(both, $k::$B, stringify!($B), $fam, var, fl, clone),
            ti!(enc, $k::$E, stringify!($E), $fam, var, fl, clone),
            ti!(dec, $k::$D, stringify!($D), $fam, var, fl, clone),
            (g_conv_ref::<$k::$E, $k::$B>, g_conv_val::<$k::$E, $k::$B>),
            (g_conv_ref::<$k::$E, $k::$D>, g_conv_val::<$k::$E, $k::$D>),
        );
    }};
}

macro_rules! single {
    ($b:expr, $fam:expr, $krate:expr, $lens:expr, $k:ident, $t:ty, $tn:expr, $z:expr, $clone:tt) => {{
        let fl = Flags { z: $z, detect: false };
        $b.single($fam, $krate, $lens, ti!(both, $t, $tn, $fam, stringify!($k), fl, $clone));
    }};
}

/// both feature variants (plain, `_z`) of a one-implementation crate
macro_rules! pair {
    ($b:expr, $fam:expr, $krate:expr, $lens:expr, $k:ident, $kz:ident, $($t:tt)+) => {{
        single!($b, $fam, $krate, $lens, $k, $k::$($t)+, stringify!($($t)+), false, clone);
        single!($b, $fam, $krate, $lens, $kz, $kz::$($t)+, stringify!($($t)+), true, clone);
    }};
}

macro_rules! aes_variants {
    ($b:expr, $fam:expr, $B:ident, $E:ident, $D:ident) => {{
        const DET: bool = cfg!(any(target_arch = "x86_64", target_arch = "x86", target_arch = "aarch64"));
        triple!($b, $fam, "aes", aes_auto, $B, $E, $D, Flags { z: false, detect: DET });
        triple!($b, $fam, "aes", aes_auto_z, $B, $E, $D, Flags { z: true, detect: DET });
        triple!($b, $fam, "aes", aes_autoc_z, $B, $E, $D, Flags { z: true, detect: DET });
        triple!($b, $fam, "aes", aes_soft, $B, $E, $D, Flags { z: false, detect: false });
        triple!($b, $fam, "aes", aes_soft_z, $B, $E, $D, Flags { z: true, detect: false });
        triple!($b, $fam, "aes", aes_softc_z, $B, $E, $D, Flags { z: true, detect: false });
        triple!($b, $fam, "aes", aes_alt_z, $B, $E, $D, Flags { z: true, detect: false });
        triple!($b, $fam, "aes", aes_altc_z, $B, $E, $D, Flags { z: true, detect: false });
        triple!($b, $fam, "aes", aes_autoc, $B, $E, $D, Flags { z: false, detect: DET });
        triple!($b, $fam, "aes", aes_softc, $B, $E, $D, Flags { z: false, detect: false });
        triple!($b, $fam, "aes", aes_alt, $B, $E, $D, Flags { z: false, detect: false });
        triple!($b, $fam, "aes", aes_altc, $B, $E, $D, Flags { z: false, detect: false });
    }};
}

// ---------------------------------------------------------------------------
// Threefish built WITHOUT its `cipher` feature: no KeyInit / BlockCipher traits, only the
// inherent API. Adapted here (little-endian words, zero tweak = what KeyInit::new does) so that
// this feature subset takes part in C03 and C16 like any other build variant.

pub trait RawTf: Clone {
    const WORDS: usize;
    fn mk(key: &[u8]) -> Self;
    fn enc_words(&self, w: &mut [u64]);
    fn dec_words(&self, w: &mut [u64]);
}

macro_rules! raw_tf {
    ($t:ty, $n:expr) => {
        impl RawTf for $t {
            const WORDS: usize = $n;
            fn mk(key: &[u8]) -> Self {
                let k: [u8; $n * 8] = key.try_into().unwrap();
                <$t>::new_with_tweak(&k, &[0u8; 16])
            }
            fn enc_words(&self, w: &mut [u64]) {
                let a: &mut [u64; $n] = w.try_into().unwrap();
                self.encrypt_block_u64(a)
            }
            fn dec_words(&self, w: &mut [u64]) {
                let a: &mut [u64; $n] = w.try_into().unwrap();
                self.decrypt_block_u64(a)
            }
        }
    };
}
raw_tf!(threefish_nc_z::Threefish256, 4);
raw_tf!(threefish_nc_z::Threefish512, 8);
raw_tf!(threefish_nc_z::Threefish1024, 16);

unsafe fn raw_new<T: RawTf>(slot: *mut u8, key: &[u8]) -> bool {
    if key.len() != T::WORDS * 8 {
        return false;
    }
    unsafe { ptr::write(slot as *mut T, T::mk(key)) };
    true
}

unsafe fn raw_call<T: RawTf, const DEC: bool>(this: *const u8, _shape: Shape, inp: *const u8, outp: *mut u8, n: usize) {
    // every call shape is served block by block through the u64 API (the adapter, not the crate,
    // owns the buffer handling here, so C04 says nothing about this variant)
    let c = unsafe { &*(this as *const T) };
    let bs = T::WORDS * 8;
    let mut w = [0u64; 16];
    for b in 0..n {
        for i in 0..T::WORDS {
            let mut x = [0u8; 8];
            unsafe { ptr::copy_nonoverlapping(inp.add(b * bs + 8 * i), x.as_mut_ptr(), 8) };
            w[i] = u64::from_le_bytes(x);
        }
        if DEC { c.dec_words(&mut w[..T::WORDS]) } else { c.enc_words(&mut w[..T::WORDS]) }
        for i in 0..T::WORDS {
            let x = w[i].to_le_bytes();
            unsafe { ptr::copy_nonoverlapping(x.as_ptr(), outp.add(b * bs + 8 * i), 8) };
        }
    }
}

unsafe fn raw_par(_this: *const u8) -> usize {
    1
}

fn raw_info<T: RawTf>(type_name: &'static str, family: &'static str, variant: &'static str, send: bool, sync: bool) -> TypeInfo {
    TypeInfo {
        id: 0,
        name: format!("{}::{}", variant, type_name),
        type_name,
        family,
        variant,
        role: Role::Both,
        block: T::WORDS * 8,
        key_size: T::WORDS * 8,
        size: core::mem::size_of::<T>(),
        align: core::mem::align_of::<T>(),
        zeroize: true,
        detect: false,
        send,
        sync,
        new_from_slice: raw_new::<T>,
        new_fixed: raw_new::<T>,
        clone: Some(g_clone::<T>),
        clone_from: Some(g_clone_from::<T>),
        drop: g_drop::<T>,
        box_drop: g_box_drop::<T>,
        enc: Some(raw_call::<T, false>),
        dec: Some(raw_call::<T, true>),
        enc_par: Some(raw_par),
        dec_par: Some(raw_par),
    }
}

pub fn build() -> Registry {
    use cipher::consts::*;
    let mut b = Builder { reg: Registry { types: Vec::new(), convs: Vec::new(), families: Vec::new() } };

    aes_variants!(b, "aes128", Aes128, Aes128Enc, Aes128Dec);
    aes_variants!(b, "aes192", Aes192, Aes192Enc, Aes192Dec);
    aes_variants!(b, "aes256", Aes256, Aes256Enc, Aes256Dec);

    let nz = Flags { z: false, detect: false };
    let _ = nz;
    triple!(b, "kuznyechik", "kuznyechik", kuz, Kuznyechik, KuznyechikEnc, KuznyechikDec, Flags { z: false, detect: false });
    triple!(b, "kuznyechik", "kuznyechik", kuz_z, Kuznyechik, KuznyechikEnc, KuznyechikDec, Flags { z: true, detect: false });
    triple!(b, "kuznyechik", "kuznyechik", kuz_soft, Kuznyechik, KuznyechikEnc, KuznyechikDec, Flags { z: false, detect: false });
    triple!(b, "kuznyechik", "kuznyechik", kuz_soft_z, Kuznyechik, KuznyechikEnc, KuznyechikDec, Flags { z: true, detect: false });
    triple!(b, "kuznyechik", "kuznyechik", kuz_compact_z, Kuznyechik, KuznyechikEnc, KuznyechikDec, Flags { z: true, detect: false });
    triple!(b, "kuznyechik", "kuznyechik", kuz_compact, Kuznyechik, KuznyechikEnc, KuznyechikDec, Flags { z: false, detect: false });

    let serp: Vec<usize> = (16..=32).collect();
    single!(b, "serpent", "serpent", &serp, serpent, serpent::Serpent, "Serpent", false, clone);
    single!(b, "serpent", "serpent", &serp, serpent_z, serpent_z::Serpent, "Serpent", true, clone);
    single!(b, "serpent", "serpent", &serp, serpent_nu_z, serpent_nu_z::Serpent, "Serpent", true, clone);
    single!(b, "serpent", "serpent", &serp, serpent_nu, serpent_nu::Serpent, "Serpent", false, clone);

    let bf: Vec<usize> = (4..=56).collect();
    single!(b, "blowfish", "blowfish", &bf, blowfish, blowfish::Blowfish, "Blowfish", false, clone);
    single!(b, "blowfish", "blowfish", &bf, blowfish_zb, blowfish_zb::Blowfish, "Blowfish", true, clone);
    single!(b, "blowfish_le", "blowfish", &bf, blowfish, blowfish::BlowfishLE, "BlowfishLE", false, clone);
    single!(b, "blowfish_le", "blowfish", &bf, blowfish_zb, blowfish_zb::BlowfishLE, "BlowfishLE", true, clone);

    pair!(b, "aria128", "aria", &[16], aria, aria_z, Aria128);
    pair!(b, "aria192", "aria", &[24], aria, aria_z, Aria192);
    pair!(b, "aria256", "aria", &[32], aria, aria_z, Aria256);
    pair!(b, "belt", "belt-block", &[32], belt_block, belt_block_z, BeltBlock);
    pair!(b, "camellia128", "camellia", &[16], camellia, camellia_z, Camellia128);
    pair!(b, "camellia192", "camellia", &[24], camellia, camellia_z, Camellia192);
    pair!(b, "camellia256", "camellia", &[32], camellia, camellia_z, Camellia256);
    let c5: Vec<usize> = (5..=16).collect();
    pair!(b, "cast5", "cast5", &c5, cast5, cast5_z, Cast5);
    pair!(b, "cast6", "cast6", &[16, 20, 24, 28, 32], cast6, cast6_z, Cast6);
    pair!(b, "des", "des", &[8], des, des_z, Des);
    pair!(b, "tdes_ede3", "des", &[24], des, des_z, TdesEde3);
    pair!(b, "tdes_eee3", "des", &[24], des, des_z, TdesEee3);
    pair!(b, "tdes_ede2", "des", &[16], des, des_z, TdesEde2);
    pair!(b, "tdes_eee2", "des", &[16], des, des_z, TdesEee2);
    pair!(b, "gift128", "gift", &[16], gift, gift_z, Gift128);
    pair!(b, "idea", "idea", &[16], idea, idea_z, Idea);
    pair!(b, "magma", "magma", &[32], magma, magma_z, Magma);
    pair!(b, "gost89_test", "magma", &[32], magma, magma_z, Gost89Test);
    pair!(b, "gost89_a", "magma", &[32], magma, magma_z, Gost89CryptoProA);
    pair!(b, "gost89_b", "magma", &[32], magma, magma_z, Gost89CryptoProB);
    pair!(b, "gost89_c", "magma", &[32], magma, magma_z, Gost89CryptoProC);
    pair!(b, "gost89_d", "magma", &[32], magma, magma_z, Gost89CryptoProD);
    let rc2l: Vec<usize> = (1..=128).collect();
    pair!(b, "rc2", "rc2", &rc2l, rc2, rc2_z, Rc2);
    pair!(b, "rc5_8_12_4", "rc5", &[4], rc5, rc5_z, RC5<u8, U12, U4>);
    pair!(b, "rc5_16_16_8", "rc5", &[8], rc5, rc5_z, RC5<u16, U16, U8>);
    pair!(b, "rc5_32_12_16", "rc5", &[16], rc5, rc5_z, RC5<u32, U12, U16>);
    pair!(b, "rc5_32_16_16", "rc5", &[16], rc5, rc5_z, RC5<u32, U16, U16>);
    pair!(b, "rc5_64_24_24", "rc5", &[24], rc5, rc5_z, RC5<u64, U24, U24>);
    pair!(b, "rc5_128_28_32", "rc5", &[32], rc5, rc5_z, RC5<u128, U28, U32>);
    pair!(b, "rc5_32_20_7", "rc5", &[7], rc5, rc5_z, RC5<u32, U20, U7>);
    pair!(b, "sm4", "sm4", &[16], sm4, sm4_z, Sm4);
    pair!(b, "speck32_64", "speck", &[8], speck, speck_z, Speck32_64);
    pair!(b, "speck48_72", "speck", &[9], speck, speck_z, Speck48_72);
    pair!(b, "speck48_96", "speck", &[12], speck, speck_z, Speck48_96);
    pair!(b, "speck64_96", "speck", &[12], speck, speck_z, Speck64_96);
    pair!(b, "speck64_128", "speck", &[16], speck, speck_z, Speck64_128);
    pair!(b, "speck96_96", "speck", &[12], speck, speck_z, Speck96_96);
    pair!(b, "speck96_144", "speck", &[18], speck, speck_z, Speck96_144);
    pair!(b, "speck128_128", "speck", &[16], speck, speck_z, Speck128_128);
    pair!(b, "speck128_192", "speck", &[24], speck, speck_z, Speck128_192);
    pair!(b, "speck128_256", "speck", &[32], speck, speck_z, Speck128_256);
    pair!(b, "threefish256", "threefish", &[32], threefish, threefish_z, Threefish256);
    pair!(b, "threefish512", "threefish", &[64], threefish, threefish_z, Threefish512);
    pair!(b, "threefish1024", "threefish", &[128], threefish, threefish_z, Threefish1024);
    b.single("threefish256", "threefish", &[32], raw_info::<threefish_nc_z::Threefish256>("Threefish256", "threefish256", "threefish_nc_z", ProbeSend::<threefish_nc_z::Threefish256>::V, ProbeSync::<threefish_nc_z::Threefish256>::V));
    b.single("threefish512", "threefish", &[64], raw_info::<threefish_nc_z::Threefish512>("Threefish512", "threefish512", "threefish_nc_z", ProbeSend::<threefish_nc_z::Threefish512>::V, ProbeSync::<threefish_nc_z::Threefish512>::V));
    b.single("threefish1024", "threefish", &[128], raw_info::<threefish_nc_z::Threefish1024>("Threefish1024", "threefish1024", "threefish_nc_z", ProbeSend::<threefish_nc_z::Threefish1024>::V, ProbeSync::<threefish_nc_z::Threefish1024>::V));
    pair!(b, "twofish", "twofish", &[16, 24, 32], twofish, twofish_z, Twofish);
    single!(b, "xtea", "xtea", &[16], xtea, xtea::Xtea, "Xtea", false, noclone);
    single!(b, "xtea", "xtea", &[16], xtea_z, xtea_z::Xtea, "Xtea", true, noclone);

    b.reg
}
