//! Deterministic simulator for RustCrypto/block-ciphers (see /verif/DESIGN.md).
#![allow(clippy::missing_safety_doc, clippy::too_many_arguments)]

pub mod bcrypt;
pub mod engine;
pub mod workload;
pub mod mem;
pub mod prng;
pub mod registry;
pub mod residue;
#[cfg(not(miri))]
pub mod spy;
pub mod world;

/// The aarch64 intrinsic model (used in generated aarch64 shadows); linked here so that
/// `sim-native selftest-model` can cross-check it against the host's AES-NI instructions.
#[path = "../models/verif_neon_model.rs"]
pub mod verif_neon_model;
