//! Deterministic simulator for RustCrypto/block-ciphers (see /verif/DESIGN.md).
#![allow(clippy::missing_safety_doc, clippy::too_many_arguments)]

pub mod bcrypt;
pub mod engine;
pub mod workload;
pub mod mem;
pub mod prng;
pub mod registry;
pub mod residue;
pub mod world;
