//! Simulator-owned memory: instance slots and the caller-buffer arena.
//!
//! Both are raw allocations whose base pointer is created once and never
//! re-derived, so that pointers handed to cipher code keep one provenance
//! (matters under Miri) and the simulator can inspect, relocate and scribble
//! over storage independently of any Rust value living there.

use std::alloc::{Layout, alloc_zeroed, dealloc};

pub const SLOT_BYTES: usize = 8192;
pub const SLOT_ALIGN: usize = 64;
/// free / dead storage is filled with this
pub const DEAD: u8 = 0xDD;

#[derive(Clone, Copy, Debug, PartialEq, Eq)]
pub struct SlotRef {
    pub idx: usize,
    pub off: usize,
}

pub struct Slots {
    mem: Vec<*mut u8>,
    free: Vec<usize>,
    pub allocs: u64,
}

impl Default for Slots {
    fn default() -> Self {
        Self::new()
    }
}

impl Slots {
    pub fn new() -> Self {
        Slots { mem: Vec::new(), free: Vec::new(), allocs: 0 }
    }
    fn layout() -> Layout {
        Layout::from_size_align(SLOT_BYTES, SLOT_ALIGN).unwrap()
    }
    /// Allocate a slot; `off` is a byte offset inside it (multiple of the type's alignment).
    pub fn alloc(&mut self, off: usize) -> SlotRef {
        self.allocs += 1;
        let idx = match self.free.pop() {
            Some(i) => i,
            None => {
                let p = unsafe { alloc_zeroed(Self::layout()) };
                assert!(!p.is_null());
                self.mem.push(p);
                self.mem.len() - 1
            }
        };
        unsafe { core::ptr::write_bytes(self.mem[idx], DEAD, SLOT_BYTES) };
        SlotRef { idx, off }
    }
    pub fn free(&mut self, s: SlotRef) {
        unsafe { core::ptr::write_bytes(self.mem[s.idx], DEAD, SLOT_BYTES) };
        self.free.push(s.idx);
    }
    #[inline]
    pub fn ptr(&self, s: SlotRef) -> *mut u8 {
        unsafe { self.mem[s.idx].add(s.off) }
    }
    pub fn base(&self, s: SlotRef) -> *mut u8 {
        self.mem[s.idx]
    }
    pub fn live(&self) -> usize {
        self.mem.len() - self.free.len()
    }
}

impl Drop for Slots {
    fn drop(&mut self) {
        for &p in &self.mem {
            unsafe { dealloc(p, Self::layout()) };
        }
    }
}

pub const ARENA_BYTES: usize = 8192;

/// The callers' buffer memory with a shadow copy.
pub struct Arena {
    base: *mut u8,
    pub shadow: Vec<u8>,
}

impl Default for Arena {
    fn default() -> Self {
        Self::new()
    }
}

impl Arena {
    fn layout() -> Layout {
        Layout::from_size_align(ARENA_BYTES, 64).unwrap()
    }
    pub fn new() -> Self {
        let base = unsafe { alloc_zeroed(Self::layout()) };
        assert!(!base.is_null());
        Arena { base, shadow: vec![0u8; ARENA_BYTES] }
    }
    /// fill arena and shadow with canary bytes
    pub fn fill(&mut self, f: &mut dyn FnMut(&mut [u8])) {
        f(&mut self.shadow);
        unsafe { core::ptr::copy_nonoverlapping(self.shadow.as_ptr(), self.base, ARENA_BYTES) };
    }
    #[inline]
    pub fn ptr(&self, off: usize) -> *mut u8 {
        debug_assert!(off <= ARENA_BYTES);
        unsafe { self.base.add(off) }
    }
    /// write into both arena and shadow
    pub fn put(&mut self, off: usize, data: &[u8]) {
        assert!(off + data.len() <= ARENA_BYTES);
        self.shadow[off..off + data.len()].copy_from_slice(data);
        unsafe { core::ptr::copy_nonoverlapping(data.as_ptr(), self.base.add(off), data.len()) };
    }
    pub fn get(&self, off: usize, len: usize) -> Vec<u8> {
        assert!(off + len <= ARENA_BYTES);
        let mut v = vec![0u8; len];
        unsafe { core::ptr::copy_nonoverlapping(self.base.add(off), v.as_mut_ptr(), len) };
        v
    }
    /// first offset outside `[off, off+len)` where the arena differs from its shadow
    pub fn diff_outside(&self, off: usize, len: usize) -> Option<usize> {
        let a = unsafe { core::slice::from_raw_parts(self.base as *const u8, ARENA_BYTES) };
        if a[..off] != self.shadow[..off] {
            return (0..off).find(|&i| a[i] != self.shadow[i]);
        }
        let e = off + len;
        if a[e..] != self.shadow[e..] {
            return (e..ARENA_BYTES).find(|&i| a[i] != self.shadow[i]);
        }
        None
    }
    /// restore the arena from the shadow
    pub fn restore(&mut self) {
        unsafe { core::ptr::copy_nonoverlapping(self.shadow.as_ptr(), self.base, ARENA_BYTES) };
    }
    pub fn restore_range(&mut self, off: usize, len: usize) {
        unsafe { core::ptr::copy_nonoverlapping(self.shadow.as_ptr().add(off), self.base.add(off), len) };
    }
}

impl Drop for Arena {
    fn drop(&mut self) {
        unsafe { dealloc(self.base, Self::layout()) };
    }
}

/// 64-byte aligned private scratch buffer for the oracles' per-block calls.
#[repr(C, align(64))]
pub struct Scratch(pub [u8; 256]);
