//! Simulator-owned memory: instance slots and the caller-buffer arena.
//!
//! Both are raw allocations whose base pointer is created once and never
//! re-derived, so that pointers handed to cipher code keep one provenance
//! (matters under Miri) and the simulator can inspect, relocate and scribble
//! over storage independently of any Rust value living there.

use std::alloc::{Layout, alloc_zeroed, dealloc};

pub const SLOT_BYTES: usize = 8192;
pub const SLOT_ALIGN: usize = 64;
/// free / dead storage is filled with this
pub const DEAD: u8 = 0xDD;

#[derive(Clone, Copy, Debug, PartialEq, Eq)]
pub struct SlotRef {
    pub idx: usize,
    pub off: usize,
}

/// SlotRef::idx of instances that live in the packed slab
pub const SLAB_IDX: usize = usize::MAX;
pub const SLAB_BYTES: usize = 1 << 17;
const SLAB_SLACK: usize = 4096;

pub struct Slots {
    mem: Vec<*mut u8>,
    free: Vec<usize>,
    pub allocs: u64,
    /// Packed storage: instances sit back to back in one slab, like elements of a Vec or fields of a
    /// struct, with a shadow copy. An operation on one instance that writes into a neighbour (or past the
    /// last instance) shows up as a difference outside the regions that operation may touch.
    slab: *mut u8,
    slab_shadow: Vec<u8>,
    /// live regions (offset, length), sorted by offset
    regions: Vec<(usize, usize)>,
    hwm: usize,
}

impl Default for Slots {
    fn default() -> Self {
        Self::new()
    }
}

impl Slots {
    pub fn new() -> Self {
        Slots { mem: Vec::new(), free: Vec::new(), allocs: 0, slab: core::ptr::null_mut(), slab_shadow: Vec::new(), regions: Vec::new(), hwm: 0 }
    }
    fn slab_layout() -> Layout {
        Layout::from_size_align(SLAB_BYTES, SLOT_ALIGN).unwrap()
    }
    /// Allocate `size` bytes aligned to `align` in the packed slab, first fit from the bottom, leaving `gap`
    /// bytes (rounded up to the alignment) after the preceding live region. Falls back to a slot of its own
    /// when the slab is full, and always under Miri (separate allocations let the interpreter see any
    /// out-of-bounds access between instances, which is stronger than the shadow comparison).
    pub fn alloc_packed(&mut self, size: usize, align: usize, gap: usize) -> SlotRef {
        if cfg!(miri) || size == 0 {
            return self.alloc(gap.min(64) / align.max(1) * align.max(1));
        }
        if self.slab.is_null() {
            self.slab = unsafe { alloc_zeroed(Self::slab_layout()) };
            assert!(!self.slab.is_null());
            unsafe { core::ptr::write_bytes(self.slab, DEAD, SLAB_BYTES) };
            self.slab_shadow = vec![DEAD; SLAB_BYTES];
        }
        let a = align.max(1);
        let up = |x: usize| x.div_ceil(a) * a;
        let mut cand = up(gap);
        let mut at = self.regions.len();
        for (i, &(o, l)) in self.regions.iter().enumerate() {
            if cand + size <= o {
                at = i;
                break;
            }
            cand = up(o + l + gap);
        }
        if cand + size + SLAB_SLACK > SLAB_BYTES {
            return self.alloc(0);
        }
        self.allocs += 1;
        self.regions.insert(at, (cand, size));
        self.hwm = self.hwm.max(cand + size);
        SlotRef { idx: SLAB_IDX, off: cand }
    }
    /// the live region an offset falls into
    pub fn region_at(&self, off: usize) -> Option<(usize, usize)> {
        self.regions.iter().copied().find(|&(o, l)| off >= o && off < o + l)
    }
    pub fn region_of(&self, s: SlotRef) -> Option<(usize, usize)> {
        if s.idx == SLAB_IDX { self.regions.iter().copied().find(|&(o, _)| o == s.off) } else { None }
    }
    /// the slab now legitimately differs from its shadow in these regions: accept them
    pub fn sync(&mut self, regions: &[(usize, usize)]) {
        for &(o, l) in regions {
            unsafe { core::ptr::copy_nonoverlapping(self.slab.add(o) as *const u8, self.slab_shadow.as_mut_ptr().add(o), l) };
        }
    }
    /// first byte of the slab (up to the high-water mark plus slack) that differs from the shadow outside
    /// `allowed`: (offset, expected, actual)
    pub fn foreign_diff(&self, allowed: &[(usize, usize)]) -> Option<(usize, u8, u8)> {
        if self.slab.is_null() {
            return None;
        }
        let end = (self.hwm + SLAB_SLACK).min(SLAB_BYTES);
        let cur = unsafe { core::slice::from_raw_parts(self.slab as *const u8, end) };
        if cur == &self.slab_shadow[..end] {
            return None;
        }
        let mut i = 0;
        while i < end {
            if cur[i] != self.slab_shadow[i] {
                match allowed.iter().find(|&&(o, l)| i >= o && i < o + l) {
                    Some(&(o, l)) => {
                        i = o + l;
                        continue;
                    }
                    None => return Some((i, self.slab_shadow[i], cur[i])),
                }
            }
            i += 1;
        }
        None
    }
    fn layout() -> Layout {
        Layout::from_size_align(SLOT_BYTES, SLOT_ALIGN).unwrap()
    }
    /// Allocate a slot; `off` is a byte offset inside it (multiple of the type's alignment).
    pub fn alloc(&mut self, off: usize) -> SlotRef {
        self.allocs += 1;
        let idx = match self.free.pop() {
            Some(i) => i,
            None => {
                let p = unsafe { alloc_zeroed(Self::layout()) };
                assert!(!p.is_null());
                self.mem.push(p);
                self.mem.len() - 1
            }
        };
        unsafe { core::ptr::write_bytes(self.mem[idx], DEAD, SLOT_BYTES) };
        SlotRef { idx, off }
    }
    pub fn free(&mut self, s: SlotRef) {
        if s.idx == SLAB_IDX {
            if let Some(i) = self.regions.iter().position(|&(o, _)| o == s.off) {
                let (o, l) = self.regions.remove(i);
                unsafe { core::ptr::write_bytes(self.slab.add(o), DEAD, l) };
                self.slab_shadow[o..o + l].fill(DEAD);
            }
            return;
        }
        unsafe { core::ptr::write_bytes(self.mem[s.idx], DEAD, SLOT_BYTES) };
        self.free.push(s.idx);
    }
    #[inline]
    pub fn ptr(&self, s: SlotRef) -> *mut u8 {
        if s.idx == SLAB_IDX {
            return unsafe { self.slab.add(s.off) };
        }
        unsafe { self.mem[s.idx].add(s.off) }
    }
    pub fn base(&self, s: SlotRef) -> *mut u8 {
        if s.idx == SLAB_IDX {
            return self.slab;
        }
        self.mem[s.idx]
    }
    pub fn live(&self) -> usize {
        self.mem.len() - self.free.len() + self.regions.len()
    }
}

impl Drop for Slots {
    fn drop(&mut self) {
        for &p in &self.mem {
            unsafe { dealloc(p, Self::layout()) };
        }
        if !self.slab.is_null() {
            unsafe { dealloc(self.slab, Self::slab_layout()) };
        }
    }
}

pub const ARENA_BYTES: usize = 32768;
/// canary zones before and after the arena proper, so that an overrun past either end of the
/// callers' memory is seen as a stray write instead of corrupting the simulator's heap
pub const GUARD: usize = 4096;
const TOTAL: usize = ARENA_BYTES + 2 * GUARD;

/// The callers' buffer memory with a shadow copy (both include the guard zones).
pub struct Arena {
    /// strict mode: no canary zones; the arena sits between two inaccessible pages, so that any
    /// access past either end (reads included) kills the process at the offending instruction
    strict: bool,
    raw: *mut u8,
    /// shadow of the arena proper (public offsets)
    pub shadow: Vec<u8>,
    guard_shadow: Vec<u8>,
}

impl Default for Arena {
    fn default() -> Self {
        Self::new()
    }
}

impl Arena {
    fn layout() -> Layout {
        Layout::from_size_align(TOTAL, 64).unwrap()
    }
    pub fn new() -> Self {
        Self::with_mode(false)
    }

    #[cfg(all(unix, not(miri)))]
    fn map_strict() -> *mut u8 {
        unsafe {
            let p = libc::mmap(core::ptr::null_mut(), TOTAL, libc::PROT_READ | libc::PROT_WRITE, libc::MAP_PRIVATE | libc::MAP_ANONYMOUS, -1, 0);
            assert!(p != libc::MAP_FAILED, "mmap");
            let p = p as *mut u8;
            assert_eq!(libc::mprotect(p as *mut _, GUARD, libc::PROT_NONE), 0);
            assert_eq!(libc::mprotect(p.add(GUARD + ARENA_BYTES) as *mut _, GUARD, libc::PROT_NONE), 0);
            p
        }
    }

    pub fn with_mode(strict: bool) -> Self {
        #[cfg(all(unix, not(miri)))]
        if strict {
            assert!(GUARD % 4096 == 0 && ARENA_BYTES % 4096 == 0);
            return Arena { strict: true, raw: Self::map_strict(), shadow: vec![0u8; ARENA_BYTES], guard_shadow: Vec::new() };
        }
        let _ = strict;
        let raw = unsafe { alloc_zeroed(Self::layout()) };
        assert!(!raw.is_null());
        Arena { strict: false, raw, shadow: vec![0u8; ARENA_BYTES], guard_shadow: vec![0u8; 2 * GUARD] }
    }
    pub fn is_strict(&self) -> bool {
        self.strict
    }
    /// fill arena, guards and shadows with canary bytes
    pub fn fill(&mut self, f: &mut dyn FnMut(&mut [u8])) {
        f(&mut self.shadow);
        let mut g = vec![0u8; 2 * GUARD];
        f(&mut g);
        if !self.strict {
            self.guard_shadow = g;
        }
        self.restore();
    }
    #[inline]
    pub fn ptr(&self, off: usize) -> *mut u8 {
        debug_assert!(off <= ARENA_BYTES);
        unsafe { self.raw.add(GUARD + off) }
    }
    /// write into both arena and shadow
    pub fn put(&mut self, off: usize, data: &[u8]) {
        assert!(off + data.len() <= ARENA_BYTES);
        self.shadow[off..off + data.len()].copy_from_slice(data);
        unsafe { core::ptr::copy_nonoverlapping(data.as_ptr(), self.raw.add(GUARD + off), data.len()) };
    }
    pub fn get(&self, off: usize, len: usize) -> Vec<u8> {
        assert!(off + len <= ARENA_BYTES);
        let mut v = vec![0u8; len];
        unsafe { core::ptr::copy_nonoverlapping(self.raw.add(GUARD + off), v.as_mut_ptr(), len) };
        v
    }
    /// first position outside `[off, off+len)` where memory differs from its shadow:
    /// (offset relative to the arena start — negative or >= ARENA_BYTES inside a guard zone —, expected, actual)
    pub fn diff_outside(&self, off: usize, len: usize) -> Option<(i64, u8, u8)> {
        if self.strict {
            let a = unsafe { core::slice::from_raw_parts(self.raw.add(GUARD) as *const u8, ARENA_BYTES) };
            if a[..off] != self.shadow[..off] {
                let i = (0..off).find(|&i| a[i] != self.shadow[i]).unwrap();
                return Some((i as i64, self.shadow[i], a[i]));
            }
            let e = off + len;
            if a[e..] != self.shadow[e..] {
                let i = (e..ARENA_BYTES).find(|&i| a[i] != self.shadow[i]).unwrap();
                return Some((i as i64, self.shadow[i], a[i]));
            }
            return None;
        }
        let all = unsafe { core::slice::from_raw_parts(self.raw as *const u8, TOTAL) };
        let (front, rest) = all.split_at(GUARD);
        let (a, back) = rest.split_at(ARENA_BYTES);
        if front != &self.guard_shadow[..GUARD] {
            let i = (0..GUARD).find(|&i| front[i] != self.guard_shadow[i]).unwrap();
            return Some((i as i64 - GUARD as i64, self.guard_shadow[i], front[i]));
        }
        if a[..off] != self.shadow[..off] {
            let i = (0..off).find(|&i| a[i] != self.shadow[i]).unwrap();
            return Some((i as i64, self.shadow[i], a[i]));
        }
        let e = off + len;
        if a[e..] != self.shadow[e..] {
            let i = (e..ARENA_BYTES).find(|&i| a[i] != self.shadow[i]).unwrap();
            return Some((i as i64, self.shadow[i], a[i]));
        }
        if back != &self.guard_shadow[GUARD..] {
            let i = (0..GUARD).find(|&i| back[i] != self.guard_shadow[GUARD + i]).unwrap();
            return Some(((ARENA_BYTES + i) as i64, self.guard_shadow[GUARD + i], back[i]));
        }
        None
    }
    /// restore arena and guards from the shadows
    pub fn restore(&mut self) {
        if self.strict {
            unsafe { core::ptr::copy_nonoverlapping(self.shadow.as_ptr(), self.raw.add(GUARD), ARENA_BYTES) };
            return;
        }
        unsafe {
            core::ptr::copy_nonoverlapping(self.guard_shadow.as_ptr(), self.raw, GUARD);
            core::ptr::copy_nonoverlapping(self.shadow.as_ptr(), self.raw.add(GUARD), ARENA_BYTES);
            core::ptr::copy_nonoverlapping(self.guard_shadow.as_ptr().add(GUARD), self.raw.add(GUARD + ARENA_BYTES), GUARD);
        }
    }
    pub fn restore_range(&mut self, off: usize, len: usize) {
        unsafe { core::ptr::copy_nonoverlapping(self.shadow.as_ptr().add(off), self.raw.add(GUARD + off), len) };
    }
}

impl Drop for Arena {
    fn drop(&mut self) {
        #[cfg(all(unix, not(miri)))]
        if self.strict {
            unsafe { libc::munmap(self.raw as *mut _, TOTAL) };
            return;
        }
        unsafe { dealloc(self.raw, Self::layout()) };
    }
}

/// 64-byte aligned private scratch buffer for the oracles' per-block calls.
#[repr(C, align(64))]
pub struct Scratch(pub [u8; 256]);
