//! Simulator-owned memory: instance slots and the caller-buffer arena.
//!
//! Both are raw allocations whose base pointer is created once and never
//! re-derived, so that pointers handed to cipher code keep one provenance
//! (matters under Miri) and the simulator can inspect, relocate and scribble
//! over storage independently of any Rust value living there.

use std::alloc::{Layout, alloc_zeroed, dealloc};

pub const SLOT_BYTES: usize = 8192;
pub const SLOT_ALIGN: usize = 64;
/// free / dead storage is filled with this
pub const DEAD: u8 = 0xDD;

#[derive(Clone, Copy, Debug, PartialEq, Eq)]
pub struct SlotRef {
    pub idx: usize,
    pub off: usize,
}

pub struct Slots {
    mem: Vec<*mut u8>,
    free: Vec<usize>,
    pub allocs: u64,
}

impl Default for Slots {
    fn default() -> Self {
        Self::new()
    }
}

impl Slots {
    pub fn new() -> Self {
        Slots { mem: Vec::new(), free: Vec::new(), allocs: 0 }
    }
    fn layout() -> Layout {
        Layout::from_size_align(SLOT_BYTES, SLOT_ALIGN).unwrap()
    }
    /// Allocate a slot; `off` is a byte offset inside it (multiple of the type's alignment).
    pub fn alloc(&mut self, off: usize) -> SlotRef {
        self.allocs += 1;
        let idx = match self.free.pop() {
            Some(i) => i,
            None => {
                let p = unsafe { alloc_zeroed(Self::layout()) };
                assert!(!p.is_null());
                self.mem.push(p);
                self.mem.len() - 1
            }
        };
        unsafe { core::ptr::write_bytes(self.mem[idx], DEAD, SLOT_BYTES) };
        SlotRef { idx, off }
    }
    pub fn free(&mut self, s: SlotRef) {
        unsafe { core::ptr::write_bytes(self.mem[s.idx], DEAD, SLOT_BYTES) };
        self.free.push(s.idx);
    }
    #[inline]
    pub fn ptr(&self, s: SlotRef) -> *mut u8 {
        unsafe { self.mem[s.idx].add(s.off) }
    }
    pub fn base(&self, s: SlotRef) -> *mut u8 {
        self.mem[s.idx]
    }
    pub fn live(&self) -> usize {
        self.mem.len() - self.free.len()
    }
}

impl Drop for Slots {
    fn drop(&mut self) {
        for &p in &self.mem {
            unsafe { dealloc(p, Self::layout()) };
        }
    }
}

pub const ARENA_BYTES: usize = 8192;
/// canary zones before and after the arena proper, so that an overrun past either end of the
/// callers' memory is seen as a stray write instead of corrupting the simulator's heap
pub const GUARD: usize = 4096;
const TOTAL: usize = ARENA_BYTES + 2 * GUARD;

/// The callers' buffer memory with a shadow copy (both include the guard zones).
pub struct Arena {
    /// strict mode: no canary zones; the arena sits between two inaccessible pages, so that any
    /// access past either end (reads included) kills the process at the offending instruction
    strict: bool,
    raw: *mut u8,
    /// shadow of the arena proper (public offsets)
    pub shadow: Vec<u8>,
    guard_shadow: Vec<u8>,
}

impl Default for Arena {
    fn default() -> Self {
        Self::new()
    }
}

impl Arena {
    fn layout() -> Layout {
        Layout::from_size_align(TOTAL, 64).unwrap()
    }
    pub fn new() -> Self {
        Self::with_mode(false)
    }

    #[cfg(all(unix, not(miri)))]
    fn map_strict() -> *mut u8 {
        unsafe {
            let p = libc::mmap(core::ptr::null_mut(), TOTAL, libc::PROT_READ | libc::PROT_WRITE, libc::MAP_PRIVATE | libc::MAP_ANONYMOUS, -1, 0);
            assert!(p != libc::MAP_FAILED, "mmap");
            let p = p as *mut u8;
            assert_eq!(libc::mprotect(p as *mut _, GUARD, libc::PROT_NONE), 0);
            assert_eq!(libc::mprotect(p.add(GUARD + ARENA_BYTES) as *mut _, GUARD, libc::PROT_NONE), 0);
            p
        }
    }

    pub fn with_mode(strict: bool) -> Self {
        #[cfg(all(unix, not(miri)))]
        if strict {
            assert!(GUARD % 4096 == 0 && ARENA_BYTES % 4096 == 0);
            return Arena { strict: true, raw: Self::map_strict(), shadow: vec![0u8; ARENA_BYTES], guard_shadow: Vec::new() };
        }
        let _ = strict;
        let raw = unsafe { alloc_zeroed(Self::layout()) };
        assert!(!raw.is_null());
        Arena { strict: false, raw, shadow: vec![0u8; ARENA_BYTES], guard_shadow: vec![0u8; 2 * GUARD] }
    }
    pub fn is_strict(&self) -> bool {
        self.strict
    }
    /// fill arena, guards and shadows with canary bytes
    pub fn fill(&mut self, f: &mut dyn FnMut(&mut [u8])) {
        f(&mut self.shadow);
        let mut g = vec![0u8; 2 * GUARD];
        f(&mut g);
        if !self.strict {
            self.guard_shadow = g;
        }
        self.restore();
    }
    #[inline]
    pub fn ptr(&self, off: usize) -> *mut u8 {
        debug_assert!(off <= ARENA_BYTES);
        unsafe { self.raw.add(GUARD + off) }
    }
    /// write into both arena and shadow
    pub fn put(&mut self, off: usize, data: &[u8]) {
        assert!(off + data.len() <= ARENA_BYTES);
        self.shadow[off..off + data.len()].copy_from_slice(data);
        unsafe { core::ptr::copy_nonoverlapping(data.as_ptr(), self.raw.add(GUARD + off), data.len()) };
    }
    pub fn get(&self, off: usize, len: usize) -> Vec<u8> {
        assert!(off + len <= ARENA_BYTES);
        let mut v = vec![0u8; len];
        unsafe { core::ptr::copy_nonoverlapping(self.raw.add(GUARD + off), v.as_mut_ptr(), len) };
        v
    }
    /// first position outside `[off, off+len)` where memory differs from its shadow:
    /// (offset relative to the arena start — negative or >= ARENA_BYTES inside a guard zone —, expected, actual)
    pub fn diff_outside(&self, off: usize, len: usize) -> Option<(i64, u8, u8)> {
        if self.strict {
            let a = unsafe { core::slice::from_raw_parts(self.raw.add(GUARD) as *const u8, ARENA_BYTES) };
            if a[..off] != self.shadow[..off] {
                let i = (0..off).find(|&i| a[i] != self.shadow[i]).unwrap();
                return Some((i as i64, self.shadow[i], a[i]));
            }
            let e = off + len;
            if a[e..] != self.shadow[e..] {
                let i = (e..ARENA_BYTES).find(|&i| a[i] != self.shadow[i]).unwrap();
                return Some((i as i64, self.shadow[i], a[i]));
            }
            return None;
        }
        let all = unsafe { core::slice::from_raw_parts(self.raw as *const u8, TOTAL) };
        let (front, rest) = all.split_at(GUARD);
        let (a, back) = rest.split_at(ARENA_BYTES);
        if front != &self.guard_shadow[..GUARD] {
            let i = (0..GUARD).find(|&i| front[i] != self.guard_shadow[i]).unwrap();
            return Some((i as i64 - GUARD as i64, self.guard_shadow[i], front[i]));
        }
        if a[..off] != self.shadow[..off] {
            let i = (0..off).find(|&i| a[i] != self.shadow[i]).unwrap();
            return Some((i as i64, self.shadow[i], a[i]));
        }
        let e = off + len;
        if a[e..] != self.shadow[e..] {
            let i = (e..ARENA_BYTES).find(|&i| a[i] != self.shadow[i]).unwrap();
            return Some((i as i64, self.shadow[i], a[i]));
        }
        if back != &self.guard_shadow[GUARD..] {
            let i = (0..GUARD).find(|&i| back[i] != self.guard_shadow[GUARD + i]).unwrap();
            return Some(((ARENA_BYTES + i) as i64, self.guard_shadow[GUARD + i], back[i]));
        }
        None
    }
    /// restore arena and guards from the shadows
    pub fn restore(&mut self) {
        if self.strict {
            unsafe { core::ptr::copy_nonoverlapping(self.shadow.as_ptr(), self.raw.add(GUARD), ARENA_BYTES) };
            return;
        }
        unsafe {
            core::ptr::copy_nonoverlapping(self.guard_shadow.as_ptr(), self.raw, GUARD);
            core::ptr::copy_nonoverlapping(self.shadow.as_ptr(), self.raw.add(GUARD), ARENA_BYTES);
            core::ptr::copy_nonoverlapping(self.guard_shadow.as_ptr().add(GUARD), self.raw.add(GUARD + ARENA_BYTES), GUARD);
        }
    }
    pub fn restore_range(&mut self, off: usize, len: usize) {
        unsafe { core::ptr::copy_nonoverlapping(self.shadow.as_ptr().add(off), self.raw.add(GUARD + off), len) };
    }
}

impl Drop for Arena {
    fn drop(&mut self) {
        #[cfg(all(unix, not(miri)))]
        if self.strict {
            unsafe { libc::munmap(self.raw as *mut _, TOTAL) };
            return;
        }
        unsafe { dealloc(self.raw, Self::layout()) };
    }
}

/// 64-byte aligned private scratch buffer for the oracles' per-block calls.
#[repr(C, align(64))]
pub struct Scratch(pub [u8; 256]);
