//! C16 engine (residue after drop) - see below.
use serde_json::Value;
pub fn main(_args: &[String]) { eprintln!("HARNESS-ERROR: c16 engine not built yet"); std::process::exit(2) }
pub fn replay(_v: &Value) { eprintln!("HARNESS-ERROR: c16 engine not built yet"); std::process::exit(2) }
