//! C16 engine: what is left in an instance's own storage after it is dropped.
//!
//! The simulator owns the storage (slots), builds an instance there by a seeded
//! route (new / new_from_slice / clone / From<Enc> / From<&Enc> / clone of a
//! converted instance), optionally uses and relocates it, fires `drop_now`
//! (`ptr::drop_in_place`) and reads the slot back.
//!
//! Oracle: every *key-dependent* position must read 0. A position is key-dependent
//! when it is stable over rebuilds from the same key in perturbed contexts (stack
//! depth, heap history, slot prefill) and differs between keys. Liveness (flipping
//! its low bit in a bitwise copy changes some encrypt/decrypt result) is measured
//! and reported but no longer gates the alarm: the round-0 design alarmed on live
//! bytes only, and seeded change C16d (a wipe that skips the sub-keys of unused
//! rounds) showed what that costs (DESIGN.md section 4/C16 and 12.2).

use crate::mem::{SlotRef, Slots};
use crate::prng::{Digest, Prng, hex, run_seed, unhex};
use crate::registry::{Dir, Registry, Role, Shape, TypeInfo};
use crate::world::{Anchors, Op, RunCfg, World, guard, install_quiet_panic_hook, perblock_on};
use serde_json::{Value, json};
use std::collections::{BTreeMap, HashMap, HashSet};
use std::time::Instant;

fn arg<'a>(args: &'a [String], name: &str) -> Option<&'a str> {
    args.iter().position(|a| a == name).and_then(|i| args.get(i + 1)).map(|s| s.as_str())
}

fn die(msg: &str) -> ! {
    eprintln!("HARNESS-ERROR: {}", msg);
    std::process::exit(2)
}

#[derive(Clone, Debug, PartialEq, Eq, Hash, PartialOrd, Ord)]
pub enum Route {
    New,
    NewFromSlice,
    Clone,
    ConvRef,
    ConvVal,
    CloneOfConv,
    /// the Enc source of a by-reference conversion, dropped after the conversion
    ConvSource,
    /// an inherent constructor outside KeyInit (index into `special_ctors()`)
    Special(usize),
    /// built from another key, then re-keyed in place with `clone_from`
    CloneFrom,
    /// target put into the state an inherent constructor leaves (another key, or no key at all), then
    /// re-keyed in place with `clone_from` from a KeyInit-built instance
    CloneFromOnto(usize),
    /// target built by KeyInit from another key, then re-keyed with `clone_from` from a source that an
    /// inherent constructor built
    CloneFromSpecialSrc(usize),
    /// built in the slot, moved into a `Box`, the box dropped: the storage dies with the drop; what the block
    /// holds when the allocator gets it back is inspected (a wipe made of ordinary stores may be optimised away)
    BoxedDrop,
    /// a clone, boxed and dropped likewise
    BoxedDropOfClone,
}

impl Route {
    pub fn name(&self) -> &'static str {
        match self {
            Route::New => "new",
            Route::NewFromSlice => "new_from_slice",
            Route::Clone => "clone",
            Route::ConvRef => "from_ref_enc",
            Route::ConvVal => "from_enc",
            Route::CloneOfConv => "clone_of_converted",
            Route::ConvSource => "source_of_from_ref",
            Route::Special(i) => special_ctors()[*i].1,
            Route::CloneFrom => "clone_from",
            Route::BoxedDrop => "boxed_drop",
            Route::BoxedDropOfClone => "boxed_drop_of_clone",
            Route::CloneFromOnto(i) => leak(format!("clone_from_onto:{}", special_ctors()[*i].1)),
            Route::CloneFromSpecialSrc(i) => leak(format!("clone_from_source:{}", special_ctors()[*i].1)),
        }
    }
    /// `ty`: the type the route applies to (inherent constructor labels repeat across types)
    pub fn parse(s: &str, ty: &str) -> Option<Route> {
        let special = |label: &str| special_ctors().iter().position(|c| c.1 == label && c.0 == ty);
        if let Some(l) = s.strip_prefix("clone_from_onto:") {
            return special(l).map(Route::CloneFromOnto);
        }
        if let Some(l) = s.strip_prefix("clone_from_source:") {
            return special(l).map(Route::CloneFromSpecialSrc);
        }
        [Route::New, Route::NewFromSlice, Route::Clone, Route::ConvRef, Route::ConvVal, Route::CloneOfConv, Route::ConvSource, Route::CloneFrom, Route::BoxedDrop, Route::BoxedDropOfClone]
            .into_iter()
            .find(|r| r.name() == s)
            .or_else(|| special(s).map(Route::Special))
    }
}

fn leak(s: String) -> &'static str {
    use std::sync::Mutex;
    static POOL: Mutex<Vec<&'static str>> = Mutex::new(Vec::new());
    let mut p = POOL.lock().unwrap();
    if let Some(x) = p.iter().find(|x| **x == s) {
        return x;
    }
    let l: &'static str = Box::leak(s.into_boxed_str());
    p.push(l);
    l
}

#[derive(Clone, Debug)]
pub struct Case {
    pub ty: usize,
    pub mask: bool,
    pub route: Route,
    pub key: Vec<u8>,
    pub used: bool,
    pub relocate: bool,
    pub drop_source_first: bool,
    pub off: u8,
}

/// Constructors outside `KeyInit` (inherent APIs): each is a route of its own for the types that have it.
pub type SpecialCtor = unsafe fn(*mut u8, &[u8]) -> bool;

unsafe fn ctor_bcrypt_setup(slot: *mut u8, key: &[u8]) -> bool {
    // bcrypt's key setup: init, salted expansion, one round of the cost loop
    if key.is_empty() {
        return false;
    }
    let salt: Vec<u8> = key.iter().rev().map(|b| b ^ 0x5a).chain([1u8, 2, 3]).take(16).collect();
    let mut b = blowfish_zb::Blowfish::bc_init_state();
    b.salted_expand_key(&salt, key);
    b.bc_expand_key(key);
    b.bc_expand_key(&salt);
    unsafe { core::ptr::write(slot as *mut blowfish_zb::Blowfish, b) };
    true
}

unsafe fn ctor_bc_init_state(slot: *mut u8, _key: &[u8]) -> bool {
    // the un-keyed state bcrypt starts from (public constants only)
    unsafe { core::ptr::write(slot as *mut blowfish_zb::Blowfish, blowfish_zb::Blowfish::bc_init_state()) };
    true
}

unsafe fn ctor_rc2_eff(slot: *mut u8, key: &[u8]) -> bool {
    if key.is_empty() || key.len() > 128 {
        return false;
    }
    unsafe { core::ptr::write(slot as *mut rc2_z::Rc2, rc2_z::Rc2::new_with_eff_key_len(key, 40)) };
    true
}

macro_rules! ctor_tf_tweak {
    ($name:ident, $t:ty, $n:expr) => {
        unsafe fn $name(slot: *mut u8, key: &[u8]) -> bool {
            let k: [u8; $n] = match key.try_into() {
                Ok(k) => k,
                Err(_) => return false,
            };
            let tweak = [0x9du8; 16];
            unsafe { core::ptr::write(slot as *mut $t, <$t>::new_with_tweak(&k, &tweak)) };
            true
        }
    };
}
ctor_tf_tweak!(ctor_tf256, threefish_z::Threefish256, 32);
ctor_tf_tweak!(ctor_tf512, threefish_z::Threefish512, 64);
ctor_tf_tweak!(ctor_tf1024, threefish_z::Threefish1024, 128);
ctor_tf_tweak!(ctor_tfnc256, threefish_nc_z::Threefish256, 32);
ctor_tf_tweak!(ctor_tfnc512, threefish_nc_z::Threefish512, 64);
ctor_tf_tweak!(ctor_tfnc1024, threefish_nc_z::Threefish1024, 128);

/// (type name, route label, constructor)
pub fn special_ctors() -> Vec<(&'static str, &'static str, SpecialCtor)> {
    vec![
        ("blowfish_zb::Blowfish", "bcrypt_setup", ctor_bcrypt_setup as SpecialCtor),
        ("blowfish_zb::Blowfish", "bc_init_state", ctor_bc_init_state),
        ("rc2_z::Rc2", "new_with_eff_key_len", ctor_rc2_eff),
        ("threefish_z::Threefish256", "new_with_tweak", ctor_tf256),
        ("threefish_z::Threefish512", "new_with_tweak", ctor_tf512),
        ("threefish_z::Threefish1024", "new_with_tweak", ctor_tf1024),
        ("threefish_nc_z::Threefish256", "new_with_tweak", ctor_tfnc256),
        ("threefish_nc_z::Threefish512", "new_with_tweak", ctor_tfnc512),
        ("threefish_nc_z::Threefish1024", "new_with_tweak", ctor_tfnc1024),
    ]
}

#[inline(never)]
fn perturbed<R>(depth: u32, f: &mut dyn FnMut() -> R) -> R {
    // different stack depth and stack contents per context
    let mut pad = [0u8; 96];
    for (i, b) in pad.iter_mut().enumerate() {
        *b = (i as u32 * 31 + depth * 7) as u8;
    }
    let r = if depth == 0 { f() } else { perturbed(depth - 1, f) };
    std::hint::black_box(&pad);
    r
}

/// Fixed use pattern: multi-block encrypt, single-block decrypt, buffer-to-buffer encrypt, a longer batch.
fn use_instance(t: &TypeInfo, p: *const u8) {
    let bs = t.block;
    let mut a = vec![0u8; 24 * bs];
    let mut b = vec![0u8; 24 * bs];
    for (i, x) in a.iter_mut().enumerate() {
        *x = (i * 7 + 3) as u8;
    }
    for (dir, shape, n) in [(Dir::Enc, Shape::Blocks, 3usize), (Dir::Dec, Shape::Block, 1), (Dir::Enc, Shape::BlockB2b, 1), (Dir::Dec, Shape::BlocksB2b, 23), (Dir::Enc, Shape::BlocksInout, 10)] {
        if let Some(f) = t.call(dir) {
            let (pa, pb) = (a.as_mut_ptr(), b.as_mut_ptr());
            let _ = if shape.disjoint_only() { guard(|| unsafe { f(p, shape, pa as *const u8, pb, n) }) } else { guard(|| unsafe { f(p, shape, pa as *const u8, pa, n) }) };
        }
    }
}

fn read_slot(p: *const u8, n: usize) -> Vec<u8> {
    (0..n).map(|i| unsafe { core::ptr::read_volatile(p.add(i)) }).collect()
}

pub struct Calib {
    /// key-functional positions
    pub k: Vec<usize>,
    pub live: Vec<usize>,
}

struct Engine<'a> {
    reg: &'a Registry,
    anchors: &'a Anchors,
    calib: HashMap<(usize, bool, usize, bool, usize), Calib>,
    probes: Vec<u8>,
}

impl<'a> Engine<'a> {
    fn build_plain(&self, slots: &mut Slots, t: &TypeInfo, key: &[u8], ctx: u32, prefill: u8, special: usize) -> Option<SlotRef> {
        let _junk: Vec<u8> = vec![ctx as u8; 64 + 40 * ctx as usize];
        let s = slots.alloc(((ctx as usize) % 3) * 64);
        let p = slots.ptr(s);
        unsafe { core::ptr::write_bytes(p, prefill, t.size) };
        let ctor = if special == usize::MAX { t.new_from_slice } else { special_ctors()[special].2 };
        let mut f = || guard(|| unsafe { ctor(p, key) });
        match perturbed(ctx * 3, &mut f) {
            Ok(true) => Some(s),
            _ => {
                slots.free(s);
                None
            }
        }
    }

    fn observable(&self, t: &TypeInfo, p: *const u8) -> Option<Vec<u8>> {
        let mut out = Vec::new();
        for d in [Dir::Enc, Dir::Dec] {
            if t.call(d).is_some() {
                let n = 4 * t.block;
                out.extend(perblock_on(t, p, d, &self.probes[..n]).ok()?);
            }
        }
        Some(out)
    }

    /// does flipping bit 0 of byte `pos` change any observable result? (up to 256 probe blocks, early exit)
    fn is_live(&self, t: &TypeInfo, good: *const u8, scratch: *mut u8, pos: usize) -> bool {
        unsafe {
            core::ptr::copy_nonoverlapping(good, scratch, t.size);
            *scratch.add(pos) ^= 1;
        }
        let mut live = false;
        'outer: for d in [Dir::Enc, Dir::Dec] {
            if t.call(d).is_none() {
                continue;
            }
            let mut done = 0usize;
            for chunk in [4usize, 12, 48, 192] {
                let a = done * t.block;
                let b = (done + chunk) * t.block;
                let data = &self.probes[a..b];
                let x = perblock_on(t, good, d, data);
                let y = perblock_on(t, scratch as *const u8, d, data);
                match (x, y) {
                    (Ok(x), Ok(y)) if x == y => {}
                    _ => {
                        live = true;
                        break 'outer;
                    }
                }
                done += chunk;
            }
        }
        live
    }

    /// `used`: calibrate on instances that have been used (fixed calls) before they are read, so that
    /// key-dependent state deposited inside the instance by a call (a cached batch, a scratch buffer)
    /// belongs to the alarm set of used instances
    fn calibrate(&mut self, ty: usize, mask: bool, klen: usize, used: bool, special: usize) -> &Calib {
        if !self.calib.contains_key(&(ty, mask, klen, used, special)) {
            let t = self.reg.types[ty].clone();
            cpufeatures::sim::bump_epoch();
            cpufeatures::sim::set_mask(mask);
            let mut slots = Slots::new();
            let mut rng = Prng::new(0xC16 ^ (ty as u64) << 8 ^ klen as u64);
            let keys: Vec<Vec<u8>> = (0..8).map(|_| rng.bytes(klen)).collect();
            // (i) functional dependence
            let mut stable = vec![true; t.size];
            let mut differs = vec![false; t.size];
            let mut first: Option<Vec<u8>> = None;
            let mut ok = true;
            for (ki, key) in keys.iter().enumerate() {
                let mut images: Vec<Vec<u8>> = Vec::new();
                for ctx in 0..3u32 {
                    match self.build_plain(&mut slots, &t, key, ctx + ki as u32 % 2, [0x00, 0xFF, 0xA5][ctx as usize], special) {
                        Some(s) => {
                            if used {
                                use_instance(&t, slots.ptr(s));
                            }
                            images.push(read_slot(slots.ptr(s), t.size));
                            let p = slots.ptr(s);
                            let _ = guard(|| unsafe { (t.drop)(p) });
                            slots.free(s);
                        }
                        None => ok = false,
                    }
                }
                if images.len() < 3 {
                    continue;
                }
                for i in 0..t.size {
                    if images[0][i] != images[1][i] || images[0][i] != images[2][i] {
                        stable[i] = false;
                    }
                }
                match &first {
                    None => first = Some(images[0].clone()),
                    Some(f) => {
                        for i in 0..t.size {
                            if f[i] != images[0][i] {
                                differs[i] = true;
                            }
                        }
                    }
                }
            }
            let k: Vec<usize> = if ok { (0..t.size).filter(|&i| stable[i] && differs[i]).collect() } else { Vec::new() };
            // (ii) liveness, on two keys
            let mut live_set: HashSet<usize> = HashSet::new();
            let scratch = slots.alloc(0);
            for key in keys.iter().take(2) {
                if let Some(s) = self.build_plain(&mut slots, &t, key, 0, 0, special) {
                    let good = slots.ptr(s) as *const u8;
                    if self.observable(&t, good).is_some() {
                        for &pos in &k {
                            if !live_set.contains(&pos) && self.is_live(&t, good, slots.ptr(scratch), pos) {
                                live_set.insert(pos);
                            }
                        }
                    }
                    let p = slots.ptr(s);
                    let _ = guard(|| unsafe { (t.drop)(p) });
                    slots.free(s);
                }
            }
            let mut live: Vec<usize> = live_set.into_iter().collect();
            live.sort();
            self.calib.insert((ty, mask, klen, used, special), Calib { k, live });
        }
        &self.calib[&(ty, mask, klen, used, special)]
    }

    /// Run one case; returns (residue bytes of the dropped storage, type actually dropped)
    fn run_case(&mut self, c: &Case) -> Result<(Vec<u8>, usize), String> {
        let reg = self.reg;
        let t = &reg.types[c.ty];
        let f = reg.family(t.family).unwrap();
        let fam = &reg.families[f];
        let vidx = fam.variants.iter().position(|v| v.variant == t.variant).ok_or("variant")?;
        let mut variants = BTreeMap::new();
        variants.insert(f, vec![vidx]);
        let cfg = RunCfg { variants, mask: c.mask, tasks: 1, strict_arena: false, deferred: false };
        let mut w = World::new(reg, self.anchors, cfg, 0xC16);
        let mut ops: Vec<Op> = Vec::new();
        let target_role = t.role;
        let (mut target, mut source): (u32, Option<u32>) = (1, None);
        match c.route {
            Route::New | Route::NewFromSlice | Route::BoxedDrop => {
                ops.push(Op::New { id: 1, task: 0, fam: f, role: target_role, key: c.key.clone(), fixed: c.route == Route::New });
            }
            Route::Clone | Route::BoxedDropOfClone => {
                ops.push(Op::New { id: 2, task: 0, fam: f, role: target_role, key: c.key.clone(), fixed: false });
                ops.push(Op::Clone { id: 1, task: 0, src: 2 });
                source = Some(2);
            }
            Route::ConvRef | Route::ConvVal | Route::CloneOfConv => {
                ops.push(Op::New { id: 2, task: 0, fam: f, role: Role::Enc, key: c.key.clone(), fixed: false });
                if c.route == Route::CloneOfConv {
                    ops.push(Op::Conv { id: 3, task: 0, src: 2, to: target_role, by_ref: true });
                    ops.push(Op::Clone { id: 1, task: 0, src: 3 });
                } else {
                    ops.push(Op::Conv { id: 1, task: 0, src: 2, to: target_role, by_ref: c.route == Route::ConvRef });
                }
                if c.route != Route::ConvVal {
                    source = Some(2);
                }
            }
            Route::ConvSource => {
                ops.push(Op::New { id: 1, task: 0, fam: f, role: Role::Enc, key: c.key.clone(), fixed: false });
                ops.push(Op::Conv { id: 2, task: 0, src: 1, to: Role::Both, by_ref: true });
                target = 1;
            }
            Route::CloneFrom => {
                // target first holds another key of the same length, then takes c.key over from a second instance
                let other: Vec<u8> = c.key.iter().map(|b| b ^ 0xA7).collect();
                ops.push(Op::New { id: 1, task: 0, fam: f, role: target_role, key: other, fixed: false });
                ops.push(Op::New { id: 2, task: 0, fam: f, role: target_role, key: c.key.clone(), fixed: false });
                ops.push(Op::CloneFrom { id: 1, task: 0, src: 2 });
                source = Some(2);
            }
            Route::CloneFromOnto(_) => {
                // id 1 provides the slot (replaced below by the inherent constructor's state), id 2 the key
                ops.push(Op::New { id: 1, task: 0, fam: f, role: target_role, key: vec![0x11; fam.key_size], fixed: false });
                ops.push(Op::New { id: 2, task: 0, fam: f, role: target_role, key: c.key.clone(), fixed: false });
                source = Some(2);
            }
            Route::CloneFromSpecialSrc(_) => {
                ops.push(Op::New { id: 1, task: 0, fam: f, role: target_role, key: vec![0x33; fam.key_size], fixed: false });
                ops.push(Op::New { id: 2, task: 0, fam: f, role: target_role, key: vec![0x11; fam.key_size], fixed: false });
                source = Some(2);
            }
            Route::Special(_) => {
                // a World instance provides the slot; it is keyed with a fixed key of the family's nominal
                // length (special constructors may accept lengths KeyInit rejects), dropped in place and
                // replaced by the specially constructed value below
                let fam_klen = fam.key_size;
                ops.push(Op::New { id: 1, task: 0, fam: f, role: target_role, key: vec![0x11; fam_klen], fixed: false });
            }
        }
        for op in &ops {
            match w.apply(op) {
                Ok(so) if so.applied => {}
                Ok(_) => return Err(format!("route step not applicable: {:?}", op.kind())),
                Err(v) => return Err(format!("violation while building: {}", v.detail)),
            }
        }
        let replace: Option<(u32, usize, Vec<u8>)> = match c.route {
            Route::Special(i) => Some((target, i, c.key.clone())),
            Route::CloneFromOnto(i) => Some((1, i, c.key.iter().map(|b| b ^ 0xA7).collect())),
            Route::CloneFromSpecialSrc(i) => Some((2, i, c.key.clone())),
            _ => None,
        };
        if let Some((rid, i, rkey)) = replace {
            let r = w.insts.get(&rid).and_then(|x| x.reals.first()).cloned().ok_or("no realisation")?;
            let tt = &reg.types[r.ty];
            let p = w.slots.ptr(r.slot);
            guard(|| unsafe { (tt.drop)(p) })?;
            unsafe { core::ptr::write_bytes(p, 0xDD, tt.size) };
            let ctor = special_ctors()[i].2;
            if !guard(|| unsafe { ctor(p, &rkey) })? {
                // leave a valid value behind for World's bookkeeping
                let _ = guard(|| unsafe { (tt.new_from_slice)(p, &vec![0x11; fam.key_size]) });
                return Err("special constructor rejected key".into());
            }
            if let Some(inst) = w.insts.get_mut(&rid) {
                inst.key = Vec::new(); // World's fresh-reference oracle does not apply to this instance
            }
        }
        if matches!(c.route, Route::CloneFromOnto(_) | Route::CloneFromSpecialSrc(_)) {
            match w.apply(&Op::CloneFrom { id: 1, task: 0, src: 2 }) {
                Ok(so) if so.applied => {}
                Ok(_) => return Err("route step not applicable: clone_from".into()),
                Err(v) => return Err(format!("violation while building: {}", v.detail)),
            }
        }
        if c.drop_source_first {
            if let Some(s) = source {
                let _ = w.apply(&Op::Drop { id: s, task: 0 });
            }
        }
        if c.used && !matches!(c.route, Route::Special(_) | Route::CloneFromSpecialSrc(_)) {
            let bs = fam.block;
            for (dir, shape, n) in [(Dir::Enc, Shape::Blocks, 3u32), (Dir::Dec, Shape::Block, 1), (Dir::Enc, Shape::BlockB2b, 1)] {
                if !target_role.can(dir) {
                    continue;
                }
                let len = n as usize * bs;
                let (i, o) = if shape == Shape::BlockB2b { (0u32, 512u32) } else { (64, 64) };
                let data: Vec<u8> = (0..len).map(|x| x as u8).collect();
                if let Err(v) = w.apply(&Op::Call { id: target, task: 0, dir, shape, n, in_off: i, out_off: o, data }) {
                    return Err(format!("violation while using: {} {}", v.prop, v.detail));
                }
            }
        }
        if c.used {
            // the same fixed use pattern the calibration applies
            if let Some(r) = w.insts.get(&target).and_then(|i| i.reals.first()).cloned() {
                use_instance(&reg.types[r.ty], w.slots.ptr(r.slot));
            }
        }
        if c.relocate {
            let _ = w.apply(&Op::Relocate { id: target, task: 0, off: c.off });
        }
        // drop_now: take the instance out of the world and drop it ourselves
        let inst = w.insts.remove(&target).ok_or("target instance missing")?;
        let real = inst.reals.first().ok_or("no realisation")?.clone();
        let tt = &reg.types[real.ty];
        let p = w.slots.ptr(real.slot);
        #[cfg(not(miri))]
        if matches!(c.route, Route::BoxedDrop | Route::BoxedDropOfClone) {
            crate::spy::arm(tt.size, tt.align);
            let r = guard(|| unsafe { (tt.box_drop)(p) });
            let snap = crate::spy::take();
            // the slot now holds a moved-from copy: not a residue of any drop; clear it before it is reused
            unsafe { core::ptr::write_bytes(p, 0, tt.size) };
            w.slots.free(real.slot);
            w.finish();
            r?;
            return match snap {
                Some(bytes) => Ok((bytes, real.ty)),
                None => Err("route not applicable: the boxed instance's block was not seen being freed".into()),
            };
        }
        guard(|| unsafe { (tt.drop)(p) })?;
        let residue = read_slot(p, tt.size);
        w.slots.free(real.slot);
        w.finish();
        Ok((residue, real.ty))
    }
}

fn case_json(reg: &Registry, c: &Case) -> Value {
    json!({"type": reg.types[c.ty].name, "mask_aes": c.mask, "route": c.route.name(), "key": hex(&c.key),
           "used_before_drop": c.used, "relocated_before_drop": c.relocate, "source_dropped_first": c.drop_source_first, "slot_off": c.off})
}

fn case_from_json(reg: &Registry, v: &Value) -> Option<Case> {
    Some(Case {
        ty: reg.type_by_name(v.get("type")?.as_str()?)?,
        mask: v.get("mask_aes")?.as_bool()?,
        route: Route::parse(v.get("route")?.as_str()?, v.get("type")?.as_str()?)?,
        key: unhex(v.get("key")?.as_str()?)?,
        used: v.get("used_before_drop")?.as_bool()?,
        relocate: v.get("relocated_before_drop")?.as_bool()?,
        drop_source_first: v.get("source_dropped_first")?.as_bool()?,
        off: v.get("slot_off")?.as_u64()? as u8,
    })
}

struct Outcome {
    /// key-dependent (rule i) positions that are non-zero after drop — the alarm set
    kdep_nonzero: Vec<usize>,
    live_nonzero: Vec<usize>,
    nonlive_nonzero: usize,
    live: usize,
    kdep: usize,
    dropped_ty: usize,
}

fn judge(e: &mut Engine, c: &Case) -> Result<Outcome, String> {
    let (residue, dty) = e.run_case(c)?;
    let special = match c.route {
        Route::Special(i) | Route::CloneFromSpecialSrc(i) => i,
        _ => usize::MAX,
    };
    let cal = e.calibrate(dty, c.mask, c.key.len(), c.used, special);
    let live_nonzero: Vec<usize> = cal.live.iter().copied().filter(|&i| residue[i] != 0).collect();
    let kdep_nonzero: Vec<usize> = cal.k.iter().copied().filter(|&i| residue[i] != 0).collect();
    let live: HashSet<usize> = cal.live.iter().copied().collect();
    let nonlive_nonzero = cal.k.iter().filter(|&&i| !live.contains(&i) && residue[i] != 0).count();
    Ok(Outcome { kdep_nonzero, live_nonzero, nonlive_nonzero, live: cal.live.len(), kdep: cal.k.len(), dropped_ty: dty })
}

fn routes_for(reg: &Registry, t: &TypeInfo) -> Vec<Route> {
    let fam = &reg.families[reg.family(t.family).unwrap()];
    let mut r = vec![Route::NewFromSlice, Route::New];
    if t.clone.is_some() {
        r.push(Route::Clone);
    }
    if t.clone_from.is_some() {
        r.push(Route::CloneFrom);
    }
    if !cfg!(miri) && t.size > 0 && t.size <= 16384 {
        r.push(Route::BoxedDrop);
        if t.clone.is_some() {
            r.push(Route::BoxedDropOfClone);
        }
    }
    if fam.split && t.role != Role::Enc {
        r.extend([Route::ConvRef, Route::ConvVal, Route::CloneOfConv]);
    }
    if fam.split && t.role == Role::Enc {
        r.push(Route::ConvSource);
    }
    for (i, (tn, _, _)) in special_ctors().iter().enumerate() {
        if *tn == t.name {
            r.push(Route::Special(i));
            if t.clone_from.is_some() {
                r.extend([Route::CloneFromOnto(i), Route::CloneFromSpecialSrc(i)]);
            }
        }
    }
    r
}

pub fn main(args: &[String]) {
    let t0 = Instant::now();
    let reg = crate::registry::build();
    let anchors = Anchors::compute(&reg);
    install_quiet_panic_hook();
    let tier = arg(args, "--tier").unwrap_or("quick").to_string();
    let seed: u64 = arg(args, "--seed").and_then(|s| s.parse().ok()).unwrap_or(20261003);
    let evidence = arg(args, "--evidence").unwrap_or("/verif/evidence/C16.json").to_string();
    let replay_dir = arg(args, "--replay-dir").unwrap_or("/verif/replays").to_string();
    let known = crate::engine::Known::load(arg(args, "--known").unwrap_or("/verif/known_findings.json"));
    let keys_per_cell: u64 = arg(args, "--keys").and_then(|s| s.parse().ok()).unwrap_or(if tier == "quick" { 6 } else { 200 });
    println!("sim-native c16 tier={} VERIF_SEED={} keys_per_cell={}", tier, seed, keys_per_cell);
    let mut probe_rng = Prng::new(0x9E37_C16);
    let mut e = Engine { reg: &reg, anchors: &anchors, calib: HashMap::new(), probes: probe_rng.bytes(256 * 128) };
    let mut evaluations = 0u64;
    let mut cells: HashSet<String> = HashSet::new();
    let mut distinct: HashSet<u64> = HashSet::new();
    let mut violations: Vec<Value> = Vec::new();
    let mut seen_sig: HashSet<String> = HashSet::new();
    let mut known_hits: Vec<(String, String)> = Vec::new();
    let mut warn_nonlive = 0u64;
    let mut warn_types: HashSet<String> = HashSet::new();
    let mut samples: Vec<Value> = Vec::new();
    let mut faults: BTreeMap<&str, u64> = BTreeMap::new();
    let mut per_type: Vec<Value> = Vec::new();
    let mut herr: Vec<String> = Vec::new();
    let mut case_no = 0u64;
    let mut types_checked = 0u64;
    for t in reg.types.iter().filter(|t| t.zeroize) {
        let fam = &reg.families[reg.family(t.family).unwrap()];
        let arms: &[bool] = if t.detect { &[false, true] } else { &[false] };
        types_checked += 1;
        let mut tl = json!({"type": t.name, "size": t.size});
        for &mask in arms {
            for route in routes_for(&reg, t) {
                for kk in 0..keys_per_cell {
                    case_no += 1;
                    let mut rng = Prng::new(run_seed(seed, case_no));
                    let klen = if route == Route::New { fam.key_size } else { *rng.pick(&fam.key_lens) };
                    let c = Case {
                        ty: t.id,
                        mask,
                        route: route.clone(),
                        key: if kk == 0 { vec![0x42; klen] } else { rng.bytes(klen) },
                        used: rng.chance(1, 2),
                        relocate: rng.chance(1, 2),
                        drop_source_first: rng.chance(1, 2),
                        off: rng.below(8) as u8,
                    };
                    match judge(&mut e, &c) {
                        Ok(o) => {
                            evaluations += 1;
                            cells.insert(format!("{}/{}/{}", t.name, mask, route.name()));
                            if o.live > 0 {
                                let mut d = Digest::default();
                                d.str(&t.name);
                                d.u64(mask as u64);
                                d.str(route.name());
                                d.bytes(&c.key);
                                d.u64(c.used as u64 * 4 + c.relocate as u64 * 2 + c.drop_source_first as u64);
                                distinct.insert(d.finish());
                            }
                            if mask {
                                *faults.entry("mask_aes").or_insert(0) += 1;
                            }
                            if c.relocate {
                                *faults.entry("relocate_before_drop").or_insert(0) += 1;
                            }
                            if c.used {
                                *faults.entry("used_before_drop").or_insert(0) += 1;
                            }
                            if c.drop_source_first && matches!(route, Route::Clone | Route::ConvRef | Route::CloneOfConv) {
                                *faults.entry("drop_source_first").or_insert(0) += 1;
                            }
                            *faults.entry("drop_now").or_insert(0) += 1;
                            if kk == 0 && route == Route::NewFromSlice {
                                tl[if mask { "soft_arm" } else { "default_arm" }] =
                                    json!({"key_dependent": o.kdep, "live": o.live, "dropped_type": reg.types[o.dropped_ty].name});
                            }
                            if o.nonlive_nonzero > 0 {
                                warn_nonlive += 1;
                                warn_types.insert(t.name.clone());
                            }
                            if samples.len() < 3 && kk == 1 && (case_no % 37 == 5) {
                                samples.push(json!({"case": case_json(&reg, &c), "key_dependent_positions": o.kdep, "live_positions": o.live,
                                    "live_nonzero_after_drop": o.live_nonzero.len(), "nonlive_nonzero_after_drop": o.nonlive_nonzero}));
                            }
                            if !o.kdep_nonzero.is_empty() {
                                let sig = format!("C16/residue/{}/{}/{}", t.family, t.variant, t.type_name);
                                let full = format!("{}/{}/{}", sig, if mask { "soft_arm" } else { "default_arm" }, route.name());
                                if let Some((s, w)) = known.entries.iter().find(|(s, _)| full.starts_with(s.as_str())) {
                                    if !known_hits.iter().any(|(a, _)| a == s) {
                                        known_hits.push((s.clone(), w.clone()));
                                    }
                                    continue;
                                }
                                if seen_sig.insert(full.clone()) {
                                    let vj = json!({"property": "C16", "class": "residue", "signature": full,
                                        "detail": format!("{} key-dependent bytes of {} are non-zero after drop (first offsets {:?}; {} of them live, i.e. they influence encrypt/decrypt results) of {} key-dependent / {} live / {} total; key length {}",
                                            o.kdep_nonzero.len(), reg.types[o.dropped_ty].name, &o.kdep_nonzero[..o.kdep_nonzero.len().min(8)], o.live_nonzero.len(), o.kdep, o.live, reg.types[o.dropped_ty].size, c.key.len())});
                                    let mut rj = json!({"format": "block-ciphers-sim-replay/1", "property": "C16", "engine": "c16", "seed": seed,
                                        "case": case_json(&reg, &c), "violation": vj});
                                    if !crate::engine::build_label().is_empty() {
                                        rj["build"] = json!(crate::engine::build_label());
                                    }
                                    let _ = std::fs::create_dir_all(&replay_dir);
                                    let path = format!("{}/C16-{}{}-{}.json", replay_dir, if crate::engine::build_label().is_empty() { String::new() } else { format!("{}-", crate::engine::build_label()) }, seed, case_no);
                                    let _ = std::fs::write(&path, serde_json::to_string_pretty(&rj).unwrap());
                                    violations.push(json!({"replay": path, "violation": vj}));
                                }
                            }
                        }
                        Err(msg) => {
                            if msg.contains("not applicable") || msg.contains("rejected") {
                                continue;
                            }
                            herr.push(format!("{} {} {}: {}", t.name, mask, route.name(), msg));
                        }
                    }
                }
            }
        }
        per_type.push(tl);
    }
    let wall = t0.elapsed().as_secs_f64();
    let ev = json!({
        "property_id": "C16", "tier": tier, "seed": seed, "level": "exploration",
        "coverage": {
            "evaluations": evaluations,
            "distinct_nontrivial": distinct.len(),
            "rule": "one evaluation = one simulated lifecycle: a zeroize-built type, a detection arm, a construction route, a key, seeded faults (use before drop, bitwise relocation to another slot/offset, source dropped first), then drop_in_place and byte-exact inspection of the slot. Non-trivial = the type has at least one live key-dependent byte under this arm; distinct = distinct (type, arm, route, key, fault set) tuples. The (type, arm, route) grid is enumerated completely on every run; keys are sampled",
            "samples": samples,
            "exhaustive": false,
            "grid_cells_type_arm_route": cells.len(),
            "types_checked": types_checked,
            "faults_fired": faults,
            "warn_unwiped_nonlive_key_functional": {"cases": warn_nonlive, "types": warn_types.into_iter().collect::<Vec<_>>()},
            "per_type": per_type,
            "simulated_time": "n/a - the code under test reads no clock",
            "runs_per_hour": (evaluations as f64 / wall.max(1e-9) * 3600.0) as u64,
            "components": {"real": ["every crate under /repo built with its zeroize feature", "zeroize", "cipher"], "vendored_with_seam": ["cpufeatures 0.2.17"], "stub": []},
        },
        "assumptions": [
            "a position counts as key-dependent only if it is identical over three rebuilds from the same key in perturbed contexts and differs for some pair of 8 keys of the same length (context-dependent stack garbage in padding or an unused union tail is thereby excluded)",
            "ARMv8/NEON types are not covered natively (no such hardware here); the interpreter engine (coverage.miri_c16) inspects them"
        ],
        "wall_s": wall,
        "violations": violations.len(),
    });
    if let Some(dir) = std::path::Path::new(&evidence).parent() {
        let _ = std::fs::create_dir_all(dir);
    }
    std::fs::write(&evidence, serde_json::to_string_pretty(&ev).unwrap()).unwrap_or_else(|e| die(&format!("write evidence: {}", e)));
    for (s, w) in &known_hits {
        println!("KNOWN-FINDING: property=C16 {} [{}]", w, s);
    }
    if warn_nonlive > 0 {
        println!("WARN unwiped non-live key-functional bytes in {} cases (not an alarm, see DESIGN.md C16)", warn_nonlive);
    }
    println!("cases={} cells={} types={} distinct_nontrivial={} wall={:.1}s", evaluations, cells.len(), types_checked, distinct.len(), wall);
    if !herr.is_empty() {
        for h in herr.iter().take(10) {
            eprintln!("HARNESS-ERROR: {}", h);
        }
        std::process::exit(2);
    }
    if !violations.is_empty() {
        for v in &violations {
            println!("{}", v["violation"]);
            println!("VIOLATION property=C16 replay={}", v["replay"].as_str().unwrap_or(""));
        }
        std::process::exit(1);
    }
    println!("OK property=C16 held on {} cases", evaluations);
}

pub fn replay(v: &Value) {
    let reg = crate::registry::build();
    let anchors = Anchors::compute(&reg);
    install_quiet_panic_hook();
    let c = case_from_json(&reg, v.get("case").unwrap_or(&Value::Null)).unwrap_or_else(|| die("bad c16 case"));
    let mut probe_rng = Prng::new(0x9E37_C16);
    let mut e = Engine { reg: &reg, anchors: &anchors, calib: HashMap::new(), probes: probe_rng.bytes(256 * 128) };
    match judge(&mut e, &c) {
        Ok(o) if !o.kdep_nonzero.is_empty() => {
            println!(
                "{} key-dependent bytes ({} live) non-zero after drop of {} (offsets {:?}...)",
                o.kdep_nonzero.len(),
                o.live_nonzero.len(),
                reg.types[o.dropped_ty].name,
                &o.kdep_nonzero[..o.kdep_nonzero.len().min(8)]
            );
            println!("REPRODUCED");
            println!("VIOLATION property=C16 replay=<this file>");
            std::process::exit(1);
        }
        Ok(_) => println!("NOT-REPRODUCED: all key-dependent bytes are zero after drop"),
        Err(m) => die(&m),
    }
}
