//! Running simulations: one run from one seed, replay of an explicit operation
//! list, minimisation, worker batches and the merged result.

use crate::workload::{Gen, Limits, Prop, plan_limited};
use crate::prng::{Prng, hex, run_seed};
use crate::registry::Registry;
use crate::world::{Anchors, Op, RunCfg, Stats, Violation, World};
use serde_json::{Value, json};
use std::collections::HashSet;

pub struct RunResult {
    pub seed: u64,
    pub cfg: RunCfg,
    pub ops: Vec<Op>,
    pub violation: Option<Violation>,
    pub notes: Vec<Violation>,
    pub stats: Stats,
    pub h_all: u64,
    pub h_portable: u64,
    pub task_order: u64,
    pub insts_created: u64,
    pub harness_error: Option<String>,
    /// cold-start mode: the recorded calls, for judgement by another process
    pub records: Vec<serde_json::Value>,
}

impl RunResult {
    pub fn faults_fired(&self) -> u64 {
        let s = &self.stats;
        s.f_mask_aes_construct
            + s.f_mask_aes_call
            + s.f_relocate_then_call
            + s.f_relocate_then_drop
            + s.f_drop_source_then_call
            + s.f_drop_now_live
            + s.f_epoch_flip_with_live
            + s.f_place_unaligned
            + s.f_place_disjoint_below
            + s.f_place_disjoint_above
            + s.f_place_touching
            + s.f_place_arena_end
            + s.f_place_zero_len
    }
    pub fn nontrivial(&self) -> bool {
        self.faults_fired() > 0 && self.insts_created >= 2
    }
}

/// Known findings: violations with these signatures are reported as KNOWN-FINDING, not VIOLATION.
#[derive(Clone, Default)]
pub struct Known {
    pub entries: Vec<(String, String)>, // (signature prefix, description)
}

impl Known {
    pub fn load(path: &str) -> Known {
        let mut k = Known::default();
        if let Ok(s) = std::fs::read_to_string(path) {
            if let Ok(v) = serde_json::from_str::<Value>(&s) {
                if let Some(a) = v.get("findings").and_then(|x| x.as_array()) {
                    for e in a {
                        if let (Some(sig), Some(w)) =
                            (e.get("signature").and_then(|x| x.as_str()), e.get("what").and_then(|x| x.as_str()))
                        {
                            k.entries.push((sig.to_string(), w.to_string()));
                        }
                    }
                }
            }
        }
        k
    }
    pub fn matches(&self, v: &Violation) -> Option<&(String, String)> {
        let sig = format!("{}/{}", v.signature(), v.variant);
        self.entries.iter().find(|(s, _)| sig.starts_with(s.as_str()))
    }
}

fn stale_reads() -> u64 {
    cpufeatures::sim::stats().stale_token_reads
}

/// Execute `ops` under `cfg`. Stops at the first violation attributed to `target`
/// (or to any property when `target` is `None`); others are collected as notes.
pub fn execute(
    reg: &Registry,
    anchors: &Anchors,
    cfg: &RunCfg,
    ops: &[Op],
    canary: u64,
    target: Option<&str>,
    known: &Known,
) -> RunResult {
    execute_mode(reg, anchors, cfg, ops, canary, target, known, false)
}

/// `cold`: deferred oracles (see `World::settle`); only meaningful as the first thing a process does.
#[allow(clippy::too_many_arguments)]
pub fn execute_mode(
    reg: &Registry,
    anchors: &Anchors,
    cfg: &RunCfg,
    ops: &[Op],
    canary: u64,
    target: Option<&str>,
    known: &Known,
    cold: bool,
) -> RunResult {
    let stale0 = stale_reads();
    let mut w = World::new(reg, anchors, cfg.clone(), canary);
    w.deferred = cold || w.cfg_deferred;
    w.trace = std::env::var_os("VERIF_TRACE_OPS").is_some();
    let mut violation = None;
    let mut created = 0u64;
    for op in ops {
        match w.apply(op) {
            Ok(so) => {
                if so.applied && matches!(op, Op::New { .. } | Op::Clone { .. } | Op::Conv { .. }) {
                    created += 1;
                }
            }
            Err(v) => {
                if known.matches(&v).is_some() {
                    w.notes.push(v);
                } else if target.map(|t| v.concerns(t)).unwrap_or(true) {
                    violation = Some(v);
                    break;
                } else {
                    w.notes.push(v);
                }
            }
        }
    }
    let records = if cold { w.pending_records() } else { Vec::new() };
    if w.deferred && violation.is_none() {
        w.drop_all();
        if let Some(v) = w.settle() {
            if known.matches(&v).is_some() || !target.map(|t| v.concerns(t)).unwrap_or(true) {
                w.notes.push(v);
            } else {
                violation = Some(v);
            }
        }
    }
    w.finish();
    let harness_error = if stale_reads() != stale0 {
        Some("a live detection token observed a stale cache (epoch bumped while a token holder was alive)".to_string())
    } else {
        None
    };
    RunResult {
        seed: canary,
        cfg: cfg.clone(),
        ops: ops.to_vec(),
        violation,
        notes: std::mem::take(&mut w.notes),
        stats: w.stats.clone(),
        h_all: w.h_all.finish(),
        h_portable: w.h_portable.finish(),
        task_order: w.task_order.finish(),
        insts_created: created,
        harness_error,
        records,
    }
}

/// One simulated run: everything derives from `seed`.
pub fn run_one(reg: &Registry, anchors: &Anchors, prop: Prop, seed: u64, known: &Known) -> RunResult {
    run_one_limited(reg, anchors, prop, seed, known, &Limits::default())
}

pub fn run_one_limited(reg: &Registry, anchors: &Anchors, prop: Prop, seed: u64, known: &Known, lim: &Limits) -> RunResult {
    run_one_mode(reg, anchors, prop, seed, known, lim, false)
}

pub fn run_one_mode(reg: &Registry, anchors: &Anchors, prop: Prop, seed: u64, known: &Known, lim: &Limits, cold: bool) -> RunResult {
    run_one_full(reg, anchors, prop, seed, known, lim, cold, false)
}

#[allow(clippy::too_many_arguments)]
pub fn run_one_full(reg: &Registry, anchors: &Anchors, prop: Prop, seed: u64, known: &Known, lim: &Limits, cold: bool, trace: bool) -> RunResult {
    let stale0 = stale_reads();
    let mut rng = Prng::new(seed);
    let pl = plan_limited(reg, prop, &mut rng, lim);
    let mut w = World::new(reg, anchors, pl.cfg.clone(), seed);
    w.deferred = cold || w.cfg_deferred;
    w.trace = trace;
    if trace {
        println!("@env {}", pl.cfg.to_json(reg));
    }
    let mut g = Gen::new();
    let mut ops = Vec::with_capacity(pl.len);
    let mut violation = None;
    let mut created = 0u64;
    for _ in 0..pl.len {
        let op = g.next(&w, &pl, &mut rng);
        let r = w.apply(&op);
        ops.push(op);
        match r {
            Ok(so) => {
                if so.applied && matches!(ops.last().unwrap(), Op::New { .. } | Op::Clone { .. } | Op::Conv { .. }) {
                    created += 1;
                }
            }
            Err(v) => {
                if known.matches(&v).is_some() {
                    w.notes.push(v);
                } else if v.concerns(prop.name()) {
                    violation = Some(v);
                    break;
                } else {
                    w.notes.push(v);
                }
            }
        }
    }
    let records = if cold { w.pending_records() } else { Vec::new() };
    if w.deferred && violation.is_none() {
        w.drop_all();
        if let Some(v) = w.settle() {
            if known.matches(&v).is_some() || !v.concerns(prop.name()) {
                w.notes.push(v);
            } else {
                violation = Some(v);
            }
        }
    }
    w.finish();
    let harness_error = if stale_reads() != stale0 {
        Some("a live detection token observed a stale cache".to_string())
    } else {
        None
    };
    RunResult {
        seed,
        cfg: pl.cfg.clone(),
        ops,
        violation,
        notes: std::mem::take(&mut w.notes),
        stats: w.stats.clone(),
        h_all: w.h_all.finish(),
        h_portable: w.h_portable.finish(),
        task_order: w.task_order.finish(),
        insts_created: created,
        harness_error,
        records,
    }
}

// ---------------------------------------------------------------------------
// minimisation

pub struct Shrunk {
    pub cfg: RunCfg,
    pub ops: Vec<Op>,
    pub violation: Violation,
    pub replays: u64,
}

pub fn shrink(reg: &Registry, anchors: &Anchors, r: &RunResult, known: &Known, target: &str) -> Option<Shrunk> {
    let seed = r.seed;
    let mut f = |cfg: &RunCfg, ops: &[Op]| execute(reg, anchors, cfg, ops, seed, Some(target), known).violation;
    shrink_with(r, target, &mut f)
}

/// Minimise with a caller-supplied executor (the cold-start engine replays in fresh processes).
pub fn shrink_with(r: &RunResult, target: &str, exec: &mut dyn FnMut(&RunCfg, &[Op]) -> Option<Violation>) -> Option<Shrunk> {
    let v0 = r.violation.clone()?;
    let sig = v0.signature();
    let mut replays = 0u64;
    let mut test = |cfg: &RunCfg, ops: &[Op]| -> Option<Violation> {
        replays += 1;
        match exec(cfg, ops) {
            Some(v) if v.signature() == sig && v.concerns(target) => Some(v),
            _ => None,
        }
    };
    let mut cfg = r.cfg.clone();
    // (a cold-start violation is found after the history, but its step is that of the judged call)
    let mut ops: Vec<Op> = r.ops[..=(v0.step.min(r.ops.len() - 1))].to_vec();
    let mut best = match test(&cfg, &ops) {
        Some(v) => v,
        None => return None,
    };
    // pass 1: remove operations (chunks, then singles) until fixpoint
    let mut chunk = (ops.len() / 2).max(1);
    loop {
        let mut changed = false;
        let mut i = 0;
        while i < ops.len() {
            let end = (i + chunk).min(ops.len());
            if end - i == ops.len() {
                i = end;
                continue;
            }
            let mut cand = ops.clone();
            cand.drain(i..end);
            if let Some(v) = test(&cfg, &cand) {
                ops = cand;
                best = v;
                changed = true;
            } else {
                i = end;
            }
        }
        if chunk == 1 && !changed {
            break;
        }
        if !changed || chunk > 1 {
            chunk = (chunk / 2).max(1);
        }
    }
    // pass 2: fewer variants / families
    let fams: Vec<usize> = cfg.variants.keys().copied().collect();
    for f in fams {
        let mut c2 = cfg.clone();
        c2.variants.remove(&f);
        if !c2.variants.is_empty() {
            if let Some(v) = test(&c2, &ops) {
                cfg = c2;
                best = v;
                continue;
            }
        }
        let mut k = 0;
        while k < cfg.variants[&f].len() {
            if cfg.variants[&f].len() <= 1 {
                break;
            }
            let mut c2 = cfg.clone();
            c2.variants.get_mut(&f).unwrap().remove(k);
            if let Some(v) = test(&c2, &ops) {
                cfg = c2;
                best = v;
            } else {
                k += 1;
            }
        }
    }
    // pass 3: environment and arguments
    if cfg.mask {
        let mut c2 = cfg.clone();
        c2.mask = false;
        if let Some(v) = test(&c2, &ops) {
            cfg = c2;
            best = v;
        }
    }
    for i in 0..ops.len() {
        // fewer blocks
        if let Op::Call { n, data, shape, .. } = &ops[i] {
            if !shape.single() && *n > 0 {
                let bs = data.len() / (*n as usize);
                for m in 0..*n {
                    let mut cand = ops.clone();
                    if let Op::Call { n: cn, data: cd, .. } = &mut cand[i] {
                        *cn = m;
                        cd.truncate(m as usize * bs);
                    }
                    if let Some(v) = test(&cfg, &cand) {
                        ops = cand;
                        best = v;
                        break;
                    }
                }
            }
        }
        // simpler bytes
        let mut cand = ops.clone();
        let mut touched = false;
        match &mut cand[i] {
            Op::Call { data, .. } if data.iter().any(|&b| b != 0) => {
                for (j, b) in data.iter_mut().enumerate() {
                    *b = (j / 16) as u8;
                }
                touched = true;
            }
            Op::New { key, .. } if key.iter().any(|&b| b != 0) => {
                for (j, b) in key.iter_mut().enumerate() {
                    *b = j as u8;
                }
                touched = true;
            }
            _ => {}
        }
        if touched {
            if let Some(v) = test(&cfg, &cand) {
                ops = cand;
                best = v;
            }
        }
        // single task
        let mut cand = ops.clone();
        match &mut cand[i] {
            Op::New { task, .. } | Op::Clone { task, .. } | Op::CloneFrom { task, .. } | Op::Conv { task, .. } | Op::Relocate { task, .. } | Op::Drop { task, .. } => {
                if *task != 0 {
                    *task = 0;
                    if let Some(v) = test(&cfg, &cand) {
                        ops = cand;
                        best = v;
                    }
                }
            }
            _ => {}
        }
    }
    // operations after the violating one are irrelevant
    if best.step + 1 < ops.len() {
        let cand: Vec<Op> = ops[..=best.step].to_vec();
        if let Some(v) = test(&cfg, &cand) {
            ops = cand;
            best = v;
        }
    }
    Some(Shrunk { cfg, ops, violation: best, replays })
}

// ---------------------------------------------------------------------------
// replay files

/// which build of the simulator this process is ("" = the default build; "tf" = the one compiled with the host's
/// SIMD target features enabled at compile time): replay files name it so that they are replayed by the same build
pub fn build_label() -> String {
    std::env::var("VERIF_BUILD_LABEL").unwrap_or_default()
}

pub fn replay_json(reg: &Registry, prop: &str, seed: u64, cfg: &RunCfg, ops: &[Op], v: &Violation, extra: Value) -> Value {
    let mut j = replay_json_inner(reg, prop, seed, cfg, ops, v, extra);
    if !build_label().is_empty() {
        j["build"] = json!(build_label());
    }
    j
}

fn replay_json_inner(reg: &Registry, prop: &str, seed: u64, cfg: &RunCfg, ops: &[Op], v: &Violation, extra: Value) -> Value {
    json!({
        "format": "block-ciphers-sim-replay/1",
        "property": prop,
        "engine": "native",
        "target": std::env::consts::ARCH,
        "seed": seed,
        "environment": cfg.to_json(reg),
        "ops": ops.iter().map(|o| o.to_json(reg)).collect::<Vec<_>>(),
        "violation": v.to_json(),
        "meta": extra,
    })
}

pub struct Loaded {
    pub prop: String,
    pub seed: u64,
    pub cfg: RunCfg,
    pub ops: Vec<Op>,
    pub violation: Value,
}

pub fn load_replay(reg: &Registry, v: &Value) -> Result<Loaded, String> {
    let prop = v.get("property").and_then(|x| x.as_str()).ok_or("no property")?.to_string();
    let seed = v.get("seed").and_then(|x| x.as_u64()).ok_or("no seed")?;
    let cfg = RunCfg::from_json(v.get("environment").ok_or("no environment")?, reg).ok_or("bad environment")?;
    let mut ops = Vec::new();
    for (i, o) in v.get("ops").and_then(|x| x.as_array()).ok_or("no ops")?.iter().enumerate() {
        ops.push(Op::from_json(o, reg).ok_or(format!("bad op #{}", i))?);
    }
    Ok(Loaded { prop, seed, cfg, ops, violation: v.get("violation").cloned().unwrap_or(Value::Null) })
}

// ---------------------------------------------------------------------------
// batches

pub struct Batch {
    pub runs: u64,
    pub stats: Stats,
    pub nontrivial: u64,
    pub digests: HashSet<u64>,
    pub interleavings: HashSet<u64>,
    pub violations: Vec<Value>,
    pub known_hits: Vec<(String, String)>,
    pub notes: Vec<String>,
    pub samples: Vec<Value>,
    pub harness_errors: Vec<String>,
    pub portable_xor: u64,
    pub all_xor: u64,
}

#[allow(clippy::too_many_arguments)]
pub fn run_batch(
    reg: &Registry,
    anchors: &Anchors,
    prop: Prop,
    master: u64,
    total: u64,
    stride: u64,
    offset: u64,
    known: &Known,
    replay_dir: &str,
    deadline: Option<std::time::Instant>,
    max_violations: usize,
    on_run: &mut dyn FnMut(u64, u64),
    fresh_exec: &mut dyn FnMut(&RunCfg, &[Op], u64) -> Option<Violation>,
) -> Batch {
    let mut b = Batch {
        runs: 0,
        stats: Stats::default(),
        nontrivial: 0,
        digests: HashSet::new(),
        interleavings: HashSet::new(),
        violations: Vec::new(),
        known_hits: Vec::new(),
        notes: Vec::new(),
        samples: Vec::new(),
        harness_errors: Vec::new(),
        portable_xor: 0,
        all_xor: 0,
    };
    let mut sigs_seen: HashSet<String> = HashSet::new();
    let mut i = offset;
    while i < total {
        if let Some(d) = deadline {
            if b.runs % 64 == 0 && std::time::Instant::now() > d {
                b.notes.push(format!("wall-clock cap reached after {} runs of this worker", b.runs));
                break;
            }
        }
        let seed = run_seed(master, i);
        on_run(i, seed);
        let r = run_one(reg, anchors, prop, seed, known);
        b.runs += 1;
        b.stats.add(&r.stats);
        b.portable_xor ^= r.h_portable.rotate_left((i % 63) as u32);
        b.all_xor ^= r.h_all.rotate_left((i % 63) as u32);
        if r.nontrivial() {
            b.nontrivial += 1;
            b.digests.insert(r.h_all);
        }
        b.interleavings.insert(r.task_order);
        if let Some(e) = &r.harness_error {
            b.harness_errors.push(format!("run {} seed {}: {}", i, seed, e));
        }
        for n in &r.notes {
            if let Some((s, w)) = known.matches(n) {
                if !b.known_hits.iter().any(|(a, _)| a == s) {
                    b.known_hits.push((s.clone(), w.clone()));
                }
            } else if b.notes.len() < 20 {
                b.notes.push(format!("note: {}-class divergence seen in run {} (seed {}), not this check's property: {} {}", n.prop, i, seed, n.class, n.detail));
            }
        }
        if b.samples.len() < 3 && r.nontrivial() && r.violation.is_none() && (i / stride.max(1)) % 7 == 3 {
            b.samples.push(json!({
                "run": i, "seed": seed, "environment": r.cfg.to_json(reg),
                "history": r.ops.iter().map(|o| o.to_json(reg)).collect::<Vec<_>>(),
                "h_all": format!("{:016x}", r.h_all),
            }));
        }
        if let Some(v) = &r.violation {
            let sig = v.signature();
            if sigs_seen.insert(sig.clone()) {
                let orig = replay_json(reg, prop.name(), seed, &r.cfg, &r.ops, v, json!({"run": i, "master_seed": master, "minimised": false}));
                let base = format!("{}/{}-{}-{}", replay_dir, prop.name(), master, i);
                let _ = std::fs::create_dir_all(replay_dir);
                let _ = std::fs::write(format!("{}.orig.json", base), serde_json::to_string_pretty(&orig).unwrap());
                let (path, vj) = match shrink(reg, anchors, &r, known, prop.name()) {
                    Some(s) => {
                        let j = replay_json(
                            reg,
                            prop.name(),
                            seed,
                            &s.cfg,
                            &s.ops,
                            &s.violation,
                            json!({"run": i, "master_seed": master, "minimised": true, "ops_before": r.ops.len(), "ops_after": s.ops.len(), "shrink_replays": s.replays}),
                        );
                        let p = format!("{}.min.json", base);
                        let _ = std::fs::write(&p, serde_json::to_string_pretty(&j).unwrap());
                        (p, s.violation.to_json())
                    }
                    None => {
                        // Not reproducible when replayed inside this (by now used) process: the outcome depends on
                        // process-global state. Try the same history in a fresh process, minimising there ...
                        let mut fx = |cfg: &RunCfg, ops: &[Op]| fresh_exec(cfg, ops, seed);
                        match shrink_with(&r, prop.name(), &mut fx) {
                            Some(s) => {
                                let j = replay_json(reg, prop.name(), seed, &s.cfg, &s.ops, &s.violation,
                                    json!({"run": i, "master_seed": master, "minimised": true, "ops_before": r.ops.len(), "ops_after": s.ops.len(),
                                           "shrink_replays": s.replays, "note": "depends on process-global state: reproduces in a fresh process, not when replayed inside the process that found it"}));
                                let p = format!("{}.min.json", base);
                                let _ = std::fs::write(&p, serde_json::to_string_pretty(&j).unwrap());
                                (p, s.violation.to_json())
                            }
                            None => {
                                // ... else it depends on what earlier runs of this worker left behind: the exact replay is
                                // this worker's deterministic sequence of runs from its start up to this run
                                let mut j = orig.clone();
                                j["worker_prefix"] = json!({"master_seed": master, "stride": stride, "offset": offset, "upto_run": i, "signature": sig});
                                let p = format!("{}.prefix.json", base);
                                let _ = std::fs::write(&p, serde_json::to_string_pretty(&j).unwrap());
                                (p, v.to_json())
                            }
                        }
                    }
                };
                b.violations.push(json!({"replay": path, "violation": vj, "run": i, "seed": seed}));
            }
            if b.violations.len() >= max_violations {
                break;
            }
        }
        i += stride;
    }
    b
}

impl Batch {
    pub fn to_json(&self) -> Value {
        json!({
            "runs": self.runs,
            "stats": self.stats.to_json(),
            "nontrivial": self.nontrivial,
            "digests": self.digests.iter().map(|d| format!("{:016x}", d)).collect::<Vec<_>>(),
            "interleavings": self.interleavings.iter().map(|d| format!("{:016x}", d)).collect::<Vec<_>>(),
            "violations": self.violations,
            "known_hits": self.known_hits.iter().map(|(a, b)| json!([a, b])).collect::<Vec<_>>(),
            "notes": self.notes,
            "samples": self.samples,
            "harness_errors": self.harness_errors,
            "portable_xor": format!("{:016x}", self.portable_xor),
            "all_xor": format!("{:016x}", self.all_xor),
        })
    }
}

// ---------------------------------------------------------------------------
// grid phase: the small finite dimensions are enumerated completely on every run
// (every family x every linked build variant x every role x construction routes up to depth 3 x
//  both detection arms x every call shape x batch-length classes x placement classes); keys and
// block contents stay sampled. Executed through the same World and oracles as the seeded runs.

pub struct GridCase {
    pub cfg: RunCfg,
    pub ops: Vec<Op>,
    pub label: String,
}

fn grid_calls(rng: &mut Prng, ops: &mut Vec<Op>, id: u32, role: crate::registry::Role, bs: usize, pars: &[usize], full: bool) {
    use crate::registry::{Dir, SHAPES};
    let dirs: Vec<Dir> = [Dir::Enc, Dir::Dec].into_iter().filter(|d| role.can(*d)).collect();
    let mut ns: Vec<usize> = vec![0, 1, 2];
    for &p in pars {
        for n in [p.saturating_sub(1), p, p + 1, 2 * p + 1] {
            if !ns.contains(&n) {
                ns.push(n);
            }
        }
    }
    let maxn = (crate::workload::REGION - 64) / 2 / bs;
    ns.retain(|&n| n <= maxn.max(1));
    for &dir in &dirs {
        for shape in SHAPES {
            let shape_ns: Vec<usize> = if shape.single() { vec![1] } else if full { ns.clone() } else { vec![*rng.pick(&ns), *rng.pick(&ns)] };
            for n in shape_ns {
                let len = n * bs;
                // placement classes: in place (aligned / offset), disjoint out above / below, touching, at the arena end
                let mut places: Vec<(usize, usize)> = Vec::new();
                let off = rng.below(16) as usize;
                if !shape.disjoint_only() {
                    places.push((64 + off, 64 + off));
                    places.push((crate::mem::ARENA_BYTES - len, crate::mem::ARENA_BYTES - len));
                }
                if !shape.in_place_only() && len > 0 {
                    let o2 = rng.below(16) as usize;
                    places.push((128 + off, 128 + off + len + o2)); // out above, small gap
                    places.push((128 + off + len, 128 + off)); // out below, touching
                    places.push((crate::mem::ARENA_BYTES - 2 * len - 1, crate::mem::ARENA_BYTES - len)); // out at the arena end
                }
                for (i, o) in places {
                    ops.push(Op::Call { id, task: 0, dir, shape, n: n as u32, in_off: i as u32, out_off: o as u32, data: rng.bytes(len) });
                }
            }
        }
    }
}

pub fn grid_cases(reg: &Registry, prop: Prop, seed: u64) -> Vec<GridCase> {
    use crate::registry::Role;
    let mut rng = Prng::new(seed ^ 0x6121D);
    let mut out = Vec::new();
    for (f, fam) in reg.families.iter().enumerate() {
        let all: Vec<usize> = (0..fam.variants.len()).collect();
        let any_detect = all.iter().any(|&v| reg.types[fam.variants[v].both].detect);
        // parallel widths are properties of the backends; the generator needs them only to pick batch lengths
        let pars: Vec<usize> = match fam.name {
            n if n.starts_with("aes") => vec![2, 4, 9],
            "kuznyechik" => vec![3, 4],
            _ => vec![1],
        };
        for mask in if any_detect { vec![false, true] } else { vec![false] } {
            let mut variants = std::collections::BTreeMap::new();
            variants.insert(f, all.clone());
            let ci_strict = (f % 2 == 0) ^ mask;
            let cfg = RunCfg { variants, mask, tasks: 1, strict_arena: ci_strict, deferred: false };
            for &klen in fam.key_lens.iter() {
                if prop != Prop::C03 && klen != fam.key_lens[0] && klen != *fam.key_lens.last().unwrap() {
                    continue;
                }
                let key = rng.bytes(klen);
                let mut ops: Vec<Op> = Vec::new();
                let mut id = 0u32;
                let mut fresh = |ops: &mut Vec<Op>, role: Role, fixed: bool| -> u32 {
                    id += 1;
                    ops.push(Op::New { id, task: 0, fam: f, role, key: key.clone(), fixed });
                    id
                };
                match prop {
                    Prop::C12 => {
                        // every construction route up to depth 3, with and without the source dropped first
                        let roles: Vec<Role> = if fam.split { vec![Role::Both, Role::Enc, Role::Dec] } else { vec![Role::Both] };
                        for role in roles {
                            for fixed in [false, true] {
                                if fixed && klen != fam.key_size {
                                    continue;
                                }
                                let a = fresh(&mut ops, role, fixed);
                                grid_calls(&mut rng, &mut ops, a, role, fam.block, &pars, false);
                                // clone, clone of clone
                                let (c1, c2) = (a + 1000, a + 2000);
                                ops.push(Op::Clone { id: c1, task: 0, src: a });
                                ops.push(Op::Clone { id: c2, task: 0, src: c1 });
                                ops.push(Op::Drop { id: c1, task: 0 });
                                grid_calls(&mut rng, &mut ops, c2, role, fam.block, &pars, false);
                                if role == Role::Enc {
                                    let mut k = 3000;
                                    for to in [Role::Both, Role::Dec] {
                                        for by_ref in [true, false] {
                                            for drop_src in [false, true] {
                                                // conversion from a clone of the source (so the source survives by-value conversions)
                                                let (s, d, dc) = (a + k, a + k + 1, a + k + 2);
                                                k += 10;
                                                ops.push(Op::Clone { id: s, task: 0, src: a });
                                                ops.push(Op::Conv { id: d, task: 0, src: s, to, by_ref });
                                                if by_ref && drop_src {
                                                    ops.push(Op::Drop { id: s, task: 0 });
                                                }
                                                ops.push(Op::Relocate { id: d, task: 0, off: 3 });
                                                grid_calls(&mut rng, &mut ops, d, to, fam.block, &pars, false);
                                                // clone of converted, source of the clone dropped
                                                ops.push(Op::Clone { id: dc, task: 0, src: d });
                                                ops.push(Op::Drop { id: d, task: 0 });
                                                grid_calls(&mut rng, &mut ops, dc, to, fam.block, &pars, false);
                                                ops.push(Op::Drop { id: dc, task: 0 });
                                                if by_ref && !drop_src {
                                                    ops.push(Op::Drop { id: s, task: 0 });
                                                }
                                            }
                                        }
                                    }
                                }
                                ops.push(Op::Drop { id: c2, task: 0 });
                                // clone_from onto instances keyed with keys related to this one (a re-keying that
                                // decides by a part of the key or of the schedule whether anything changed shows
                                // only on such targets): one bit apart, same first half, same second half, and for
                                // AES-192/256 the same last / a middle round key; then the reverse direction
                                if !fixed {
                                    let mut related: Vec<Vec<u8>> = Vec::new();
                                    let mut k1 = key.clone();
                                    let bi = rng.below(klen as u64) as usize;
                                    k1[bi] ^= 1 << rng.below(8);
                                    related.push(k1);
                                    let mut k2 = rng.bytes(klen);
                                    k2[..klen / 2].copy_from_slice(&key[..klen / 2]);
                                    related.push(k2);
                                    let mut k3 = rng.bytes(klen);
                                    k3[klen - klen / 2..].copy_from_slice(&key[klen - klen / 2..]);
                                    related.push(k3);
                                    if fam.name.starts_with("aes") {
                                        related.extend(crate::workload::schedule_twin::twin(&key, None, &mut rng));
                                        related.extend(crate::workload::schedule_twin::twin(&key, Some(3 + rng.below(8) as usize), &mut rng));
                                    }
                                    for (ri, rk) in related.into_iter().enumerate() {
                                        if rk == key {
                                            continue;
                                        }
                                        let (b, a2) = (a + 5000 + 10 * ri as u32, a + 5001 + 10 * ri as u32);
                                        ops.push(Op::New { id: b, task: 0, fam: f, role, key: rk, fixed: false });
                                        ops.push(Op::Clone { id: a2, task: 0, src: a });
                                        if ri % 2 == 0 {
                                            // target used before it is re-keyed
                                            grid_calls(&mut rng, &mut ops, b, role, fam.block, &[1], false);
                                        }
                                        // a2 (key) takes b's key over; then b takes the original key from a
                                        ops.push(Op::CloneFrom { id: a2, task: 0, src: b });
                                        grid_calls(&mut rng, &mut ops, a2, role, fam.block, &[1], false);
                                        ops.push(Op::CloneFrom { id: b, task: 0, src: a });
                                        grid_calls(&mut rng, &mut ops, b, role, fam.block, &[1], false);
                                        ops.push(Op::Drop { id: a2, task: 0 });
                                        ops.push(Op::Drop { id: b, task: 0 });
                                    }
                                }
                                ops.push(Op::Drop { id: a, task: 0 });
                            }
                        }
                    }
                    _ => {
                        let roles: Vec<Role> = if fam.split { vec![Role::Both, Role::Enc, Role::Dec] } else { vec![Role::Both] };
                        for role in roles {
                            let a = fresh(&mut ops, role, false);
                            grid_calls(&mut rng, &mut ops, a, role, fam.block, &pars, prop == Prop::C04);
                            if prop == Prop::C15 {
                                ops.push(Op::Relocate { id: a, task: 0, off: 5 });
                                grid_calls(&mut rng, &mut ops, a, role, fam.block, &pars, false);
                            }
                            ops.push(Op::Drop { id: a, task: 0 });
                        }
                    }
                }
                out.push(GridCase { cfg: cfg.clone(), ops, label: format!("{} mask_aes={} klen={}", fam.name, mask, klen) });
            }
        }
    }
    out
}

/// A compact batch-shape grid for a backend that exists only on another target (executed there by the
/// interpreter): one combined instance of one build variant, both directions, the three multi-block shapes
/// in place and with disjoint buffers, batch lengths par, par+1 and 2*par+1 for that backend's width.
pub fn target_grid_case(reg: &Registry, fam_name: &str, variant: &str, par: usize, mask: bool, seed: u64, compact: bool, only_dir: Option<crate::registry::Dir>) -> Option<GridCase> {
    use crate::registry::{Dir, Role, Shape};
    let f = reg.family(fam_name)?;
    let fam = &reg.families[f];
    let vidx = fam.variants.iter().position(|v| v.variant == variant)?;
    let mut rng = Prng::new(seed ^ 0x7A26E7);
    let mut variants = std::collections::BTreeMap::new();
    variants.insert(f, vec![vidx]);
    let cfg = RunCfg { variants, mask, tasks: 1, strict_arena: false, deferred: false };
    let bs = fam.block;
    let maxn = (crate::workload::REGION * 2 - 64) / 2 / bs;
    let mut ops = vec![Op::New { id: 1, task: 0, fam: f, role: Role::Both, key: rng.bytes(fam.key_size), fixed: false }];
    let mut k = 0usize;
    for dir in [Dir::Dec, Dir::Enc] {
        if only_dir.map(|d| d != dir).unwrap_or(false) {
            continue;
        }
        // batch lengths: tails of 1, 3 and par-1 blocks after one full batch (compact), every tail 0..=7 plus
        // two full batches and a tail otherwise
        let ns: Vec<usize> = if compact {
            vec![par + 1, par + 3]
        } else {
            let mut v: Vec<usize> = (0..=7usize.min(par.saturating_sub(1))).map(|t| par + t).collect();
            v.extend([2 * par - 1, 2 * par + 1]);
            v
        };
        let shapes: Vec<Shape> = if compact {
            vec![Shape::BlocksB2b, Shape::Blocks, Shape::BackendBlocksInplace]
        } else {
            vec![Shape::BlocksB2b, Shape::BlocksInout, Shape::Blocks, Shape::BackendBlocksInplace, Shape::BackendBlocksInout, Shape::BackendBlockInplace]
        };
        for shape in shapes {
            for n in ns.clone() {
                let n = n.min(maxn);
                let len = n * bs;
                k += 1;
                let (i, o) = if shape.in_place_only() {
                    let off = 64 + (k % 16);
                    (off, off)
                } else if k % 2 == 0 {
                    (32 + (k % 16), 32 + (k % 16) + len + (k % 5)) // out above, small gap
                } else {
                    (crate::mem::ARENA_BYTES - len, crate::mem::ARENA_BYTES - 2 * len - (k % 3)) // in at the arena end, out below
                };
                let data = if k % 3 == 0 { crate::workload::related_blocks(&mut rng, n, bs) } else { rng.bytes(len) };
                ops.push(Op::Call { id: 1, task: 0, dir, shape, n: n as u32, in_off: i as u32, out_off: o as u32, data });
            }
        }
        ops.push(Op::Call { id: 1, task: 0, dir, shape: Shape::BlockB2b, n: 1, in_off: 7, out_off: 200, data: rng.bytes(bs) });
    }
    ops.push(Op::Drop { id: 1, task: 0 });
    Some(GridCase { cfg, ops, label: format!("{} {} par={} mask_aes={}", fam_name, variant, par, mask) })
}

// ---------------------------------------------------------------------------
// churn phase: thousands of constructions and drops over a handful of keys while one instance lives on.
// Process-global state with a life of its own (a cache with generation counters, a pool recycled round
// robin, anything that changes after the Nth construction) needs volume and key repetition that seeded
// 96-operation histories over random keys never produce.

pub struct ChurnOutcome {
    pub constructions: u64,
    pub checkpoints: u64,
    pub violation: Option<Violation>,
}

pub fn churn_count(family: &str) -> u64 {
    match family {
        "blowfish" | "blowfish_le" => 9_000,
        f if f.starts_with("threefish") => 20_000,
        "twofish" | "serpent" | "kuznyechik" | "rc2" => 20_000,
        _ => 220_000,
    }
}

/// Deterministic in (type, seed, n).
pub fn churn_type(reg: &Registry, ty: usize, seed: u64, n: u64) -> ChurnOutcome {
    use crate::registry::Dir;
    use crate::world::{fresh_perblock_raw, guard, perblock_on};
    let t = &reg.types[ty];
    let f = reg.family(t.family).unwrap();
    let fam = &reg.families[f];
    let mut rng = Prng::new(seed ^ 0xC4021 ^ (ty as u64) << 20);
    let klen = fam.key_size;
    let key_a = rng.bytes(klen);
    // the other keys: two random ones and three related to A (cyclic shift, one bit apart, shared prefix)
    let mut others: Vec<Vec<u8>> = vec![rng.bytes(klen), rng.bytes(klen)];
    let mut k = key_a.clone();
    k.rotate_left(1);
    others.push(k);
    let mut k = key_a.clone();
    k[klen - 1] ^= 1;
    others.push(k);
    let mut k = rng.bytes(klen);
    k[..klen / 2].copy_from_slice(&key_a[..klen / 2]);
    others.push(k);
    let dir = if t.enc.is_some() { Dir::Enc } else { Dir::Dec };
    let block = rng.bytes(2 * t.block);
    let mut slots = crate::mem::Slots::new();
    let (sa, sb) = (slots.alloc(0), slots.alloc(0));
    let (pa, pb) = (slots.ptr(sa), slots.ptr(sb));
    let mut out = ChurnOutcome { constructions: 0, checkpoints: 0, violation: None };
    let viol = |class: &str, detail: String, want: &[u8], got: &[u8], step: u64| Violation {
        prop: "C15",
        class: class.to_string(),
        step: step as usize,
        family: fam.name.to_string(),
        variant: t.variant.to_string(),
        detail,
        expected: want.to_vec(),
        got: got.to_vec(),
        also: vec![],
    };
    // start values
    let want_a = match fresh_perblock_raw(t, pb, &key_a, false, dir, &block) {
        Ok(v) => v,
        Err(_) => return out,
    };
    let want_o: Vec<Vec<u8>> = others.iter().map(|k| fresh_perblock_raw(t, pb, k, false, dir, &block).unwrap_or_default()).collect();
    // the long-lived instance of A, and A seen a second time
    if !guard(|| unsafe { (t.new_from_slice)(pa, &key_a) }).unwrap_or(false) {
        return out;
    }
    let _ = fresh_perblock_raw(t, pb, &key_a, false, dir, &block);
    out.constructions = 3 + others.len() as u64;
    // Gap schedule: after a (checked) fresh construction of A, exactly g+d constructions of OTHER keys, then A
    // again. Checking A more often would itself refresh whatever per-key state a cache keeps, so the long gaps
    // contain no construction of A at all; only the long-lived instance is consulted inside a gap.
    let mut gaps: Vec<u64> = Vec::new();
    for g in [16u64, 256, 1024, 4096, 65536] {
        for d in [0u64, 1, 2] {
            if g + d <= n {
                gaps.push(g + d);
            }
        }
    }
    let mut budget = n;
    let mut step = 0u64;
    'outer: for (gi, &gap) in gaps.iter().cycle().enumerate() {
        if gap > budget || gi > 4 * gaps.len() {
            break;
        }
        budget -= gap;
        for i in 0..gap {
            let j = ((step + i) % others.len() as u64) as usize;
            if guard(|| unsafe { (t.new_from_slice)(pb, &others[j]) }).unwrap_or(false) {
                if i % 97 == 0 {
                    if let Ok(got) = perblock_on(t, pb, dir, &block) {
                        if got != want_o[j] {
                            let _ = guard(|| unsafe { (t.drop)(pb) });
                            out.violation = Some(viol("churn", format!("{}: after {} constructions over 6 keys, a fresh instance of key {} returns bytes that differ from what the same key returned at the start", t.name, out.constructions, hex(&others[j])), &want_o[j], &got, step + i));
                            break 'outer;
                        }
                    }
                }
                let _ = guard(|| unsafe { (t.drop)(pb) });
            }
            out.constructions += 1;
            // the long-lived instance keeps being used: a per-instance call counter, if any, runs up too
            if i % 2 == 0 {
                let one = perblock_on(t, pa, dir, &block[..t.block]).unwrap_or_default();
                if one[..] != want_a[..t.block] {
                    out.violation = Some(viol("churn", format!("{}: after {} constructions and {} calls on it, the long-lived instance of key A returns bytes that differ from what key A returned at the start", t.name, out.constructions, (step + i) / 2), &want_a[..t.block], &one, step + i));
                    break 'outer;
                }
            }
            if i % 509 == 0 {
                let live = perblock_on(t, pa, dir, &block).unwrap_or_default();
                if live != want_a {
                    out.violation = Some(viol("churn", format!("{}: after {} constructions over 6 keys (key A = {}), the long-lived instance of key A returns bytes that differ from what key A returned at the start", t.name, out.constructions, hex(&key_a)), &want_a, &live, step + i));
                    break 'outer;
                }
            }
        }
        step += gap;
        out.checkpoints += 1;
        let live = perblock_on(t, pa, dir, &block).unwrap_or_default();
        let fresh = fresh_perblock_raw(t, pb, &key_a, false, dir, &block).unwrap_or_default();
        out.constructions += 1;
        if live != want_a || fresh != want_a {
            let which = if live != want_a { "the long-lived instance" } else { "a fresh instance" };
            out.violation = Some(viol("churn", format!("{}: {} constructions of five other keys after the last construction of key A ({} in total; key A = {}), {} of key A returns bytes that differ from what key A returned at the start", t.name, gap, out.constructions, hex(&key_a), which), &want_a, if live != want_a { &live } else { &fresh }, step));
            break;
        }
    }
    let _ = guard(|| unsafe { (t.drop)(pa) });
    out
}

/// A compact route grid for the interpreter: every role obtained by every route (new, clone, From<&Enc>,
/// From<Enc>, clone of converted, clone_from), each used once, single build variant.
pub fn target_route_case(reg: &Registry, fam_name: &str, variant: &str, mask: bool, seed: u64) -> Option<GridCase> {
    use crate::registry::{Dir, Role, Shape};
    let f = reg.family(fam_name)?;
    let fam = &reg.families[f];
    let vidx = fam.variants.iter().position(|v| v.variant == variant)?;
    let mut rng = Prng::new(seed ^ 0x207E5);
    let mut variants = std::collections::BTreeMap::new();
    variants.insert(f, vec![vidx]);
    let cfg = RunCfg { variants, mask, tasks: 1, strict_arena: false, deferred: false };
    let bs = fam.block;
    let key = rng.bytes(fam.key_size);
    let key2 = rng.bytes(fam.key_size);
    let mut ops: Vec<Op> = Vec::new();
    let mut off = 0u32;
    let mut call = |ops: &mut Vec<Op>, id: u32, role: Role, rng: &mut Prng| {
        for dir in [Dir::Enc, Dir::Dec] {
            if role.can(dir) {
                off = (off + 48) % 4096;
                ops.push(Op::Call { id, task: 0, dir, shape: Shape::Blocks, n: 2, in_off: off, out_off: off, data: rng.bytes(2 * bs) });
            }
        }
    };
    let roles: Vec<Role> = if fam.split { vec![Role::Enc, Role::Dec, Role::Both] } else { vec![Role::Both] };
    let mut id = 0u32;
    for role in roles {
        id += 10;
        let a = id;
        ops.push(Op::New { id: a, task: 0, fam: f, role, key: key.clone(), fixed: false });
        ops.push(Op::Clone { id: a + 1, task: 0, src: a });
        call(&mut ops, a + 1, role, &mut rng);
        ops.push(Op::New { id: a + 2, task: 0, fam: f, role, key: key2.clone(), fixed: true });
        ops.push(Op::CloneFrom { id: a + 2, task: 0, src: a + 1 });
        ops.push(Op::Drop { id: a + 1, task: 0 });
        call(&mut ops, a + 2, role, &mut rng);
        if role == Role::Enc {
            let mut k = a + 3;
            for to in [Role::Dec, Role::Both] {
                for by_ref in [true, false] {
                    // convert a clone of the source, then clone the converted instance and use that
                    ops.push(Op::Clone { id: k, task: 0, src: a });
                    ops.push(Op::Conv { id: k + 100, task: 0, src: k, to, by_ref });
                    if by_ref {
                        ops.push(Op::Drop { id: k, task: 0 });
                    }
                    ops.push(Op::Clone { id: k + 200, task: 0, src: k + 100 });
                    ops.push(Op::Drop { id: k + 100, task: 0 });
                    call(&mut ops, k + 200, to, &mut rng);
                    ops.push(Op::Drop { id: k + 200, task: 0 });
                    k += 1;
                }
            }
        }
        ops.push(Op::Drop { id: a + 2, task: 0 });
        ops.push(Op::Drop { id: a, task: 0 });
    }
    Some(GridCase { cfg, ops, label: format!("{} {} routes mask_aes={}", fam_name, variant, mask) })
}

/// One short history per family for the interpreter's family sweep (every crate on every simulated target):
/// construct, multi-block buffer-to-buffer call, single-block decrypt, clone, in/out call on the clone,
/// and for families with halves a by-reference conversion to the decrypt-only type.
pub fn target_sweep_case(reg: &Registry, fam_name: &str, seed: u64, only_variants: &str) -> Option<GridCase> {
    use crate::registry::{Dir, Role, Shape};
    let f = reg.family(fam_name)?;
    let fam = &reg.families[f];
    let mut rng = Prng::new(seed ^ 0x5EE9 ^ (f as u64) << 16);
    // "-": the default build and the last listed variant; otherwise a comma-separated list of variant names
    let mut vs = vec![0usize];
    if only_variants != "-" {
        vs = only_variants.split(',').filter_map(|n| fam.variants.iter().position(|v| v.variant == n)).collect();
        if vs.is_empty() {
            return None;
        }
    } else if fam.variants.len() > 1 {
        vs.push(fam.variants.len() - 1);
    }
    let mut variants = std::collections::BTreeMap::new();
    variants.insert(f, vs);
    let cfg = RunCfg { variants, mask: false, tasks: 1, strict_arena: false, deferred: false };
    let bs = fam.block;
    let klen = *rng.pick(&fam.key_lens);
    let key = rng.bytes(klen);
    let mut ops = vec![Op::New { id: 1, task: 0, fam: f, role: Role::Both, key: key.clone(), fixed: false }];
    ops.push(Op::Call { id: 1, task: 0, dir: Dir::Enc, shape: Shape::BlocksB2b, n: 3, in_off: 5, out_off: (5 + 3 * bs + 3) as u32, data: crate::workload::related_blocks(&mut rng, 3, bs) });
    ops.push(Op::Call { id: 1, task: 0, dir: Dir::Dec, shape: Shape::Block, n: 1, in_off: 1024 + 9, out_off: 1024 + 9, data: rng.bytes(bs) });
    // the block-mode way of calling: the backend's own in-place and in-out methods through a closure
    ops.push(Op::Call { id: 1, task: 0, dir: Dir::Dec, shape: Shape::BackendBlocksInplace, n: 5, in_off: 512 + 7, out_off: 512 + 7, data: rng.bytes(5 * bs) });
    ops.push(Op::Call { id: 1, task: 0, dir: Dir::Enc, shape: Shape::BackendBlockInplace, n: 2, in_off: 768 + 1, out_off: 768 + 1, data: rng.bytes(2 * bs) });
    ops.push(Op::Call { id: 1, task: 0, dir: Dir::Dec, shape: Shape::BackendBlockInplace, n: 1, in_off: 768 + 3, out_off: 768 + 3, data: rng.bytes(bs) });
    ops.push(Op::Call { id: 1, task: 0, dir: Dir::Enc, shape: Shape::BackendBlocksInout, n: 4, in_off: 1536 + 2, out_off: (1536 + 2 + 4 * bs + 5) as u32, data: rng.bytes(4 * bs) });
    ops.push(Op::Clone { id: 2, task: 0, src: 1 });
    ops.push(Op::Drop { id: 1, task: 0 });
    ops.push(Op::Call { id: 2, task: 0, dir: Dir::Dec, shape: Shape::BlocksInout, n: 2, in_off: 2048, out_off: 2048, data: rng.bytes(2 * bs) });
    if fam.split {
        ops.push(Op::New { id: 3, task: 0, fam: f, role: Role::Enc, key, fixed: false });
        ops.push(Op::Conv { id: 4, task: 0, src: 3, to: Role::Dec, by_ref: true });
        ops.push(Op::Drop { id: 3, task: 0 });
        ops.push(Op::Call { id: 4, task: 0, dir: Dir::Dec, shape: Shape::Blocks, n: 2, in_off: 4096 + 3, out_off: 4096 + 3, data: rng.bytes(2 * bs) });
    }
    Some(GridCase { cfg, ops, label: format!("{} sweep", fam_name) })
}
