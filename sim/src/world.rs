//! The simulated world: logical cipher instances realised as bundles of
//! physical instances (one per enabled build variant), the operation alphabet,
//! and the oracles evaluated after every step.

use crate::mem::{ARENA_BYTES, Arena, Scratch, SlotRef, Slots};
use crate::prng::{Digest, hex, unhex};
use crate::registry::{Dir, Registry, Role, Shape, TypeInfo, VariantSet};
use serde_json::{Value, json};
use std::collections::BTreeMap;
use std::panic::{AssertUnwindSafe, catch_unwind};

// ---------------------------------------------------------------------------
// operations

#[derive(Clone, Debug, PartialEq)]
pub enum Op {
    New { id: u32, task: u8, fam: usize, role: Role, key: Vec<u8>, fixed: bool },
    Clone { id: u32, task: u8, src: u32 },
    /// `dst.clone_from(&src)` on two live instances of the same family and role: dst is re-keyed in place
    CloneFrom { id: u32, task: u8, src: u32 },
    Conv { id: u32, task: u8, src: u32, to: Role, by_ref: bool },
    Relocate { id: u32, task: u8, off: u8 },
    Drop { id: u32, task: u8 },
    Call { id: u32, task: u8, dir: Dir, shape: Shape, n: u32, in_off: u32, out_off: u32, data: Vec<u8> },
    Anchor { ty: usize, dir: Dir },
    EpochFlip { mask: bool },
    Repeat { step: u32 },
}

impl Op {
    pub fn kind(&self) -> &'static str {
        match self {
            Op::New { .. } => "new",
            Op::Clone { .. } => "clone",
            Op::CloneFrom { .. } => "clone_from",
            Op::Conv { .. } => "conv",
            Op::Relocate { .. } => "relocate",
            Op::Drop { .. } => "drop",
            Op::Call { .. } => "call",
            Op::Anchor { .. } => "anchor",
            Op::EpochFlip { .. } => "epoch_flip",
            Op::Repeat { .. } => "repeat",
        }
    }
    pub fn task(&self) -> u8 {
        match self {
            Op::New { task, .. }
            | Op::Clone { task, .. }
            | Op::CloneFrom { task, .. }
            | Op::Conv { task, .. }
            | Op::Relocate { task, .. }
            | Op::Drop { task, .. }
            | Op::Call { task, .. } => *task,
            _ => 0,
        }
    }
    pub fn to_json(&self, reg: &Registry) -> Value {
        match self {
            Op::New { id, task, fam, role, key, fixed } => json!({"op":"new","id":id,"task":task,
                "family":reg.families[*fam].name,"role":role.name(),"key":hex(key),"ctor": if *fixed {"new"} else {"new_from_slice"}}),
            Op::Clone { id, task, src } => json!({"op":"clone","id":id,"task":task,"src":src}),
            Op::CloneFrom { id, task, src } => json!({"op":"clone_from","id":id,"task":task,"src":src}),
            Op::Conv { id, task, src, to, by_ref } => json!({"op":"conv","id":id,"task":task,"src":src,
                "to":to.name(),"by": if *by_ref {"ref"} else {"value"}}),
            Op::Relocate { id, task, off } => json!({"op":"relocate","id":id,"task":task,"off":off}),
            Op::Drop { id, task } => json!({"op":"drop","id":id,"task":task}),
            Op::Call { id, task, dir, shape, n, in_off, out_off, data } => json!({"op":"call","id":id,"task":task,
                "dir":dir.name(),"shape":shape.name(),"n":n,"in_off":in_off,"out_off":out_off,"data":hex(data)}),
            Op::Anchor { ty, dir } => json!({"op":"anchor","type":reg.types[*ty].name,"dir":dir.name()}),
            Op::EpochFlip { mask } => json!({"op":"epoch_flip","mask_aes":mask}),
            Op::Repeat { step } => json!({"op":"repeat","step":step}),
        }
    }
    pub fn from_json(v: &Value, reg: &Registry) -> Option<Op> {
        let u = |k: &str| v.get(k).and_then(|x| x.as_u64());
        let s = |k: &str| v.get(k).and_then(|x| x.as_str());
        Some(match s("op")? {
            "new" => Op::New {
                id: u("id")? as u32,
                task: u("task")? as u8,
                fam: reg.family(s("family")?)?,
                role: Role::parse(s("role")?)?,
                key: unhex(s("key")?)?,
                fixed: s("ctor")? == "new",
            },
            "clone" => Op::Clone { id: u("id")? as u32, task: u("task")? as u8, src: u("src")? as u32 },
            "clone_from" => Op::CloneFrom { id: u("id")? as u32, task: u("task")? as u8, src: u("src")? as u32 },
            "conv" => Op::Conv {
                id: u("id")? as u32,
                task: u("task")? as u8,
                src: u("src")? as u32,
                to: Role::parse(s("to")?)?,
                by_ref: s("by")? == "ref",
            },
            "relocate" => Op::Relocate { id: u("id")? as u32, task: u("task")? as u8, off: u("off")? as u8 },
            "drop" => Op::Drop { id: u("id")? as u32, task: u("task")? as u8 },
            "call" => Op::Call {
                id: u("id")? as u32,
                task: u("task")? as u8,
                dir: Dir::parse(s("dir")?)?,
                shape: Shape::parse(s("shape")?)?,
                n: u("n")? as u32,
                in_off: u("in_off")? as u32,
                out_off: u("out_off")? as u32,
                data: unhex(s("data")?)?,
            },
            "anchor" => Op::Anchor { ty: reg.type_by_name(s("type")?)?, dir: Dir::parse(s("dir")?)? },
            "epoch_flip" => Op::EpochFlip { mask: v.get("mask_aes")?.as_bool()? },
            "repeat" => Op::Repeat { step: u("step")? as u32 },
            _ => return None,
        })
    }
}

#[derive(Clone, Debug, PartialEq)]
pub enum RouteStep {
    New { role: Role, fixed: bool },
    Clone,
    Conv { to: Role, by_ref: bool },
}

impl RouteStep {
    pub fn name(&self) -> String {
        match self {
            RouteStep::New { role, fixed } => format!("{}({})", if *fixed { "new" } else { "new_from_slice" }, role.name()),
            RouteStep::Clone => "clone".into(),
            RouteStep::Conv { to, by_ref } => format!("from_{}->{}", if *by_ref { "ref" } else { "value" }, to.name()),
        }
    }
}

#[derive(Clone, Debug)]
pub struct Real {
    /// index into the family's variant list
    pub vidx: usize,
    pub ty: usize,
    pub slot: SlotRef,
}

#[derive(Clone, Debug)]
pub struct Inst {
    pub id: u32,
    pub fam: usize,
    pub role: Role,
    pub key: Vec<u8>,
    pub route: Vec<RouteStep>,
    pub reals: Vec<Real>,
    pub parent: Option<u32>,
    pub source_dropped: bool,
    pub relocated: bool,
}

// ---------------------------------------------------------------------------
// violations

#[derive(Clone, Debug)]
pub struct Violation {
    pub prop: &'static str,
    pub class: String,
    pub step: usize,
    pub family: String,
    pub variant: String,
    pub detail: String,
    pub expected: Vec<u8>,
    pub got: Vec<u8>,
    /// other properties this same divergence also violates (e.g. a batch defect in one build
    /// variant breaks C04 and, because another variant gets the same call right, C03 as well)
    pub also: Vec<&'static str>,
}

impl Violation {
    pub fn concerns(&self, prop: &str) -> bool {
        self.prop == prop || self.also.iter().any(|p| *p == prop)
    }
    pub fn to_json(&self) -> Value {
        json!({"property": self.prop, "class": self.class, "step": self.step, "family": self.family,
               "variant": self.variant, "detail": self.detail, "also_violates": self.also,
               "expected": hex(&self.expected), "got": hex(&self.got)})
    }
    pub fn from_json(v: &Value) -> Option<Violation> {
        fn stat(p: &str) -> &'static str {
            match p {
                "C03" => "C03",
                "C04" => "C04",
                "C12" => "C12",
                "C14" => "C14",
                "C15" => "C15",
                "C16" => "C16",
                _ => "C??",
            }
        }
        let s = |k: &str| v.get(k).and_then(|x| x.as_str()).map(|x| x.to_string());
        Some(Violation {
            prop: stat(&s("property")?),
            class: s("class")?,
            step: v.get("step")?.as_u64()? as usize,
            family: s("family")?,
            variant: s("variant")?,
            detail: s("detail")?,
            expected: unhex(&s("expected")?)?,
            got: unhex(&s("got")?)?,
            also: v.get("also_violates").and_then(|a| a.as_array()).map(|a| a.iter().filter_map(|x| x.as_str()).map(stat).collect()).unwrap_or_default(),
        })
    }

    /// identity used while shrinking and when matching known findings
    pub fn signature(&self) -> String {
        format!("{}/{}/{}", self.prop, self.class, self.family)
    }
}

// ---------------------------------------------------------------------------
// anchors: pristine results computed before anything else ran in the process

#[derive(Clone, Debug)]
pub struct AnchorEntry {
    pub ty: usize,
    pub key: Vec<u8>,
    pub dir: Dir,
    pub input: Vec<u8>,
    pub output: Vec<u8>,
}

pub struct Anchors {
    pub entries: Vec<AnchorEntry>,
    pub digest: u64,
}

fn anchor_bytes(tag: &str, n: usize) -> Vec<u8> {
    let mut d = Digest::default();
    d.str(tag);
    let mut p = crate::prng::Prng::new(d.finish());
    p.bytes(n)
}

impl Anchors {
    /// Must be called first thing in the process (mask off, epoch 0).
    pub fn compute(reg: &Registry) -> Anchors {
        Self::compute_for(reg, None)
    }

    /// Anchors restricted to some families (the interpreter engines cannot afford all of them).
    pub fn compute_for(reg: &Registry, only: Option<&[&str]>) -> Anchors {
        Self::compute_ordered(reg, only, None)
    }

    /// `order`: compute the pristine table in a seeded permutation of the types. Each worker process
    /// uses another order and the driver compares the tables entry by entry: state that the first user
    /// in a process leaves behind for everybody else (the same in subject and oracle within one process,
    /// hence invisible there) differs between processes that started with different types.
    pub fn compute_ordered(reg: &Registry, only: Option<&[&str]>, order: Option<u64>) -> Anchors {
        let mut idx: Vec<usize> = (0..reg.types.len()).collect();
        if let Some(seed) = order {
            let mut rng = crate::prng::Prng::new(seed ^ 0x0A2C_0FDE);
            for i in (1..idx.len()).rev() {
                let j = rng.below(i as u64 + 1) as usize;
                idx.swap(i, j);
            }
        }
        let mut slots = Slots::new();
        let slot = slots.alloc(0);
        let mut entries = Vec::new();
        let mut dg = Digest::default();
        for &ti in &idx {
            let t = &reg.types[ti];
            if let Some(o) = only {
                if !o.contains(&t.family) {
                    continue;
                }
            }
            let fam = &reg.families[reg.family(t.family).unwrap()];
            // same key/input for every variant and role of a family
            let key = anchor_bytes(&format!("anchor-key-{}", t.family), fam.key_size);
            let input = anchor_bytes(&format!("anchor-in-{}", t.family), 2 * t.block);
            for dir in [Dir::Enc, Dir::Dec] {
                if t.call(dir).is_none() {
                    continue;
                }
                let out = fresh_perblock_raw(t, slots.ptr(slot), &key, false, dir, &input);
                if let Ok(output) = out {
                    entries.push(AnchorEntry { ty: t.id, key: key.clone(), dir, input: input.clone(), output });
                }
            }
        }
        entries.sort_by_key(|e| (e.ty, e.dir as u8));
        for e in &entries {
            dg.str(&reg.types[e.ty].name);
            dg.bytes(&e.output);
        }
        Anchors { entries, digest: dg.finish() }
    }
}

// ---------------------------------------------------------------------------
// helpers around the type-erased calls

thread_local! {
    static LAST_PANIC: std::cell::RefCell<String> = const { std::cell::RefCell::new(String::new()) };
}

pub fn install_quiet_panic_hook() {
    std::panic::set_hook(Box::new(|info| {
        let msg = info.to_string();
        LAST_PANIC.with(|p| *p.borrow_mut() = msg);
    }));
}

/// Overwrite the stack region the next call will use with a fixed pattern. A constructor, clone or
/// conversion that leaves part of its result uninitialised (a union arm copied short, a field forgotten)
/// otherwise picks up whatever the previous call left there - natively often the very bytes that belong
/// there, which hides the defect. With the poison the missing part is deterministically wrong.
#[inline(never)]
pub fn poison_stack() {
    let mut a = [0xA5u8; 12288];
    std::hint::black_box(&mut a);
}

/// Run cipher code; a panic becomes `Err(message)`.
pub fn guard<R>(f: impl FnOnce() -> R) -> Result<R, String> {
    match catch_unwind(AssertUnwindSafe(f)) {
        Ok(r) => Ok(r),
        Err(_) => Err(LAST_PANIC.with(|p| p.borrow().clone())),
    }
}

/// construct `t` from `key` at `slot`, run every block of `data` through the
/// single-block in-place call on a private aligned buffer, drop the instance.
pub fn fresh_perblock_raw(
    t: &TypeInfo,
    slot: *mut u8,
    key: &[u8],
    fixed: bool,
    dir: Dir,
    data: &[u8],
) -> Result<Vec<u8>, String> {
    let ctor = if fixed { t.new_fixed } else { t.new_from_slice };
    let ok = guard(|| unsafe { ctor(slot, key) })?;
    if !ok {
        return Err("constructor rejected key".into());
    }
    let r = perblock_on(t, slot, dir, data);
    let d = guard(|| unsafe { (t.drop)(slot) });
    let out = r?;
    d?;
    Ok(out)
}

/// per-block evaluation on an existing instance
pub fn perblock_on(t: &TypeInfo, inst: *const u8, dir: Dir, data: &[u8]) -> Result<Vec<u8>, String> {
    let f = t.call(dir).ok_or_else(|| "direction unsupported".to_string())?;
    let bs = t.block;
    let mut out = Vec::with_capacity(data.len());
    let mut buf = Scratch([0u8; 256]);
    for blk in data.chunks(bs) {
        buf.0[..bs].copy_from_slice(blk);
        let p = buf.0.as_mut_ptr();
        guard(|| unsafe { f(inst, Shape::Block, p as *const u8, p, 1) })?;
        out.extend_from_slice(&buf.0[..bs]);
    }
    Ok(out)
}

// ---------------------------------------------------------------------------
// run configuration and statistics

#[derive(Clone, Debug)]
pub struct RunCfg {
    /// family index -> enabled variant indices (into Family::variants)
    pub variants: BTreeMap<usize, Vec<usize>>,
    pub mask: bool,
    pub tasks: u8,
    /// callers' memory between two inaccessible pages instead of canary zones
    pub strict_arena: bool,
    /// every oracle evaluation (each of which constructs and uses fresh instances, i.e. acts on the process
    /// itself) is postponed to the end of the history, so that nothing but the history touches process-wide state
    pub deferred: bool,
}

impl RunCfg {
    pub fn to_json(&self, reg: &Registry) -> Value {
        let mut m = serde_json::Map::new();
        for (f, vs) in &self.variants {
            let fam = &reg.families[*f];
            m.insert(fam.name.to_string(), json!(vs.iter().map(|&v| fam.variants[v].variant).collect::<Vec<_>>()));
        }
        json!({"mask_aes": self.mask, "tasks": self.tasks, "strict_arena": self.strict_arena, "oracles_deferred": self.deferred, "variants": Value::Object(m)})
    }
    pub fn from_json(v: &Value, reg: &Registry) -> Option<RunCfg> {
        let mut variants = BTreeMap::new();
        for (fname, vs) in v.get("variants")?.as_object()? {
            let f = reg.family(fname)?;
            let fam = &reg.families[f];
            let mut idx = Vec::new();
            for x in vs.as_array()? {
                idx.push(fam.variants.iter().position(|q| q.variant == x.as_str().unwrap_or(""))?);
            }
            variants.insert(f, idx);
        }
        Some(RunCfg {
            variants,
            mask: v.get("mask_aes")?.as_bool()?,
            tasks: v.get("tasks")?.as_u64()? as u8,
            strict_arena: v.get("strict_arena").and_then(|x| x.as_bool()).unwrap_or(false),
            deferred: v.get("oracles_deferred").and_then(|x| x.as_bool()).unwrap_or(false),
        })
    }
}

macro_rules! stats_struct {
    ($($f:ident),* $(,)?) => {
        #[derive(Clone, Debug, Default)]
        pub struct Stats { $(pub $f: u64,)* }
        impl Stats {
            pub fn add(&mut self, o: &Stats) { $(self.$f += o.$f;)* }
            pub fn to_json(&self) -> Value {
                let mut m = serde_json::Map::new();
                $(m.insert(stringify!($f).to_string(), Value::from(self.$f));)*
                Value::Object(m)
            }
            pub fn from_json(v: &Value) -> Stats {
                Stats { $($f: v.get(stringify!($f)).and_then(|x| x.as_u64()).unwrap_or(0),)* }
            }
        }
    };
}

stats_struct!(
    steps,
    skipped,
    op_new,
    op_clone,
    op_clone_from,
    op_conv_ref,
    op_conv_val,
    op_relocate,
    op_drop,
    op_call,
    op_anchor,
    op_epoch_flip,
    op_repeat,
    cipher_calls,
    fresh_instances,
    blocks_processed,
    model_panics,
    // faults, counted where they took effect
    f_mask_aes_construct,
    f_mask_aes_call,
    f_relocate_then_call,
    f_relocate_then_drop,
    f_drop_source_then_call,
    f_drop_now_live,
    f_epoch_flip_with_live,
    f_place_unaligned,
    f_place_disjoint_below,
    f_place_disjoint_above,
    f_place_touching,
    f_place_arena_end,
    f_place_zero_len,
    f_place_strict_arena_end,
    // reach probes
    r_soft_arm_clone,
    r_soft_arm_conv,
    r_soft_arm_drop,
    r_soft_arm_call,
    r_tail_lt_par,
    r_tail_eq_par,
    r_tail_gt_par,
    r_tail_multi_par,
    r_route_depth_ge3,
    r_variants_ge4,
    r_anchor_under_mask,
    r_c03_refs_compared,
);

pub struct StepOut {
    pub applied: bool,
    /// bytes contributed to the portable digest
    pub out: Vec<u8>,
}

pub struct World<'a> {
    pub reg: &'a Registry,
    pub anchors: &'a Anchors,
    pub cfg: RunCfg,
    pub slots: Slots,
    pub arena: Arena,
    pub insts: BTreeMap<u32, Inst>,
    pub mask: bool,
    pub stats: Stats,
    pub h_all: Digest,
    pub h_portable: Digest,
    pub step: usize,
    scratch_a: SlotRef,
    scratch_b: SlotRef,
    /// recorded calls for Repeat: step -> (op, output)
    calls: BTreeMap<u32, (Op, Vec<u8>)>,
    pub task_order: Digest,
    /// violations attributed to a property other than the one being checked
    pub notes: Vec<Violation>,
    /// cold-start mode: no reference is computed while the history runs (computing one would
    /// construct instances and so warm up any process-global state); calls are recorded and
    /// judged by `settle` after the history has ended
    pub deferred: bool,
    /// the run configuration asked for it (as opposed to the cold-start engine)
    pub cfg_deferred: bool,
    pub pending: Vec<Pending>,
    /// print every operation (as JSON, flushed) before applying it: lets a parent process
    /// reconstruct the history of a child that dies inside cipher code
    pub trace: bool,
}

/// A call whose judgement is deferred to the end of the run (cold-start mode).
#[derive(Clone, Debug)]
pub struct Pending {
    pub step: usize,
    pub inst: Inst,
    pub dir: Dir,
    pub shape: Shape,
    pub n: usize,
    pub in_off: usize,
    pub out_off: usize,
    pub data: Vec<u8>,
    pub mask: bool,
    /// (variant index, type, output or panic message)
    pub outs: Vec<(usize, usize, Result<Vec<u8>, String>)>,
}

impl<'a> World<'a> {
    pub fn new(reg: &'a Registry, anchors: &'a Anchors, cfg: RunCfg, canary_seed: u64) -> World<'a> {
        let mut slots = Slots::new();
        let scratch_a = slots.alloc(0);
        let scratch_b = slots.alloc(0);
        let mut arena = Arena::with_mode(cfg.strict_arena);
        let mut p = crate::prng::Prng::new(canary_seed ^ 0xA11C_E0DD_BA11_F00D);
        arena.fill(&mut |b| p.fill(b));
        cpufeatures::sim::bump_epoch();
        cpufeatures::sim::set_mask(cfg.mask);
        let mask = cfg.mask;
        let want_deferred = cfg.deferred;
        World {
            reg,
            anchors,
            cfg,
            slots,
            arena,
            insts: BTreeMap::new(),
            mask,
            stats: Stats::default(),
            h_all: Digest::default(),
            h_portable: Digest::default(),
            step: 0,
            scratch_a,
            scratch_b,
            calls: BTreeMap::new(),
            task_order: Digest::default(),
            notes: Vec::new(),
            deferred: want_deferred,
            cfg_deferred: want_deferred,
            pending: Vec::new(),
            trace: false,
        }
    }

    fn vset(&self, fam: usize, vidx: usize) -> &VariantSet {
        &self.reg.families[fam].variants[vidx]
    }

    fn viol(
        &self,
        prop: &'static str,
        class: &str,
        fam: usize,
        variant: &str,
        detail: String,
        expected: &[u8],
        got: &[u8],
    ) -> Violation {
        Violation {
            prop,
            class: class.to_string(),
            step: self.step,
            family: self.reg.families[fam].name.to_string(),
            variant: variant.to_string(),
            detail,
            expected: expected.to_vec(),
            got: got.to_vec(),
            also: Vec::new(),
        }
    }

    /// Drop every live instance (end of run / epoch flip).
    pub fn drop_all(&mut self) {
        let ids: Vec<u32> = self.insts.keys().copied().collect();
        for id in ids {
            let _ = self.drop_inst(id);
        }
    }

    fn drop_inst(&mut self, id: u32) -> Result<(), String> {
        let inst = match self.insts.remove(&id) {
            Some(i) => i,
            None => return Ok(()),
        };
        let mut err = None;
        for r in &inst.reals {
            let t = &self.reg.types[r.ty];
            if t.detect && self.mask {
                self.stats.r_soft_arm_drop += 1;
            }
            let p = self.slots.ptr(r.slot);
            if let Err(e) = guard(|| unsafe { (t.drop)(p) }) {
                err = Some(e);
            }
            self.slots.free(r.slot);
        }
        if inst.relocated {
            self.stats.f_relocate_then_drop += 1;
        }
        for other in self.insts.values_mut() {
            if other.parent == Some(id) {
                other.source_dropped = true;
            }
        }
        match err {
            Some(e) => Err(e),
            None => Ok(()),
        }
    }

    fn slot_off(&self, ty: &TypeInfo, off: u8) -> usize {
        let a = ty.align.max(1);
        ((off as usize) * a) % 128
    }

    // -- fresh / route machinery ------------------------------------------------

    fn fresh_perblock(&mut self, ty: usize, key: &[u8], dir: Dir, data: &[u8]) -> Result<Vec<u8>, String> {
        self.stats.fresh_instances += 1;
        let t = &self.reg.types[ty];
        let p = self.slots.ptr(self.scratch_a);
        fresh_perblock_raw(t, p, key, false, dir, data)
    }

    /// Rebuild `route` from scratch for variant set `vs`; returns (type, pointer) of the result
    /// living in one of the scratch slots. Caller must drop it with `drop_scratch`.
    fn replay_route(&mut self, fam: usize, vidx: usize, key: &[u8], route: &[RouteStep]) -> Result<(usize, SlotRef), String> {
        let vs = self.vset(fam, vidx).clone();
        let mut cur: Option<(usize, SlotRef)> = None;
        let (mut a, mut b) = (self.scratch_a, self.scratch_b);
        for st in route {
            match st {
                RouteStep::New { role, fixed } => {
                    let ty = vs.ty(*role).ok_or("no such role")?;
                    let t = &self.reg.types[ty];
                    let ctor = if *fixed { t.new_fixed } else { t.new_from_slice };
                    let p = self.slots.ptr(a);
                    if !guard(|| unsafe { ctor(p, key) })? {
                        return Err("constructor rejected key".into());
                    }
                    cur = Some((ty, a));
                }
                RouteStep::Clone => {
                    let (ty, s) = cur.ok_or("route starts with clone")?;
                    let t = &self.reg.types[ty];
                    let f = t.clone.ok_or("type not Clone")?;
                    let (ps, pd) = (self.slots.ptr(s), self.slots.ptr(b));
                    let r = guard(|| unsafe { f(ps, pd) });
                    let _ = guard(|| unsafe { (t.drop)(ps) });
                    r?;
                    cur = Some((ty, b));
                    core::mem::swap(&mut a, &mut b);
                }
                RouteStep::Conv { to, by_ref } => {
                    let (ty, s) = cur.ok_or("route starts with conv")?;
                    let tty = vs.ty(*to).ok_or("no such role")?;
                    let c = self.reg.conv(ty, tty).ok_or("no such conversion")?.clone();
                    let (ps, pd) = (self.slots.ptr(s), self.slots.ptr(b));
                    if *by_ref {
                        let r = guard(|| unsafe { (c.by_ref)(ps, pd) });
                        let t = &self.reg.types[ty];
                        let _ = guard(|| unsafe { (t.drop)(ps) });
                        r?;
                    } else {
                        guard(|| unsafe { (c.by_val)(ps, pd) })?;
                    }
                    cur = Some((tty, b));
                    core::mem::swap(&mut a, &mut b);
                }
            }
        }
        cur.ok_or_else(|| "empty route".to_string())
    }

    fn drop_scratch(&mut self, ty: usize, s: SlotRef) {
        let t = &self.reg.types[ty];
        let p = self.slots.ptr(s);
        let _ = guard(|| unsafe { (t.drop)(p) });
    }

    // -- apply --------------------------------------------------------------------

    /// Apply one operation. `Ok(applied)`; a violation of any property is returned as `Err`.
    pub fn apply(&mut self, op: &Op) -> Result<StepOut, Violation> {
        if self.trace {
            use std::io::Write;
            println!("@op {} {}", self.step, op.to_json(self.reg));
            let _ = std::io::stdout().flush();
        }
        self.stats.steps += 1;
        // storage the operation may legitimately write: that of the instances it names (before and after)
        let named: Vec<u32> = match op {
            Op::New { id, .. } | Op::Relocate { id, .. } | Op::Drop { id, .. } | Op::Call { id, .. } => vec![*id],
            Op::Clone { id, src, .. } | Op::CloneFrom { id, src, .. } | Op::Conv { id, src, .. } => vec![*id, *src],
            Op::Repeat { step } => match self.calls.get(step) {
                Some((Op::Call { id, .. }, _)) => vec![*id],
                _ => vec![],
            },
            Op::EpochFlip { .. } => self.insts.keys().copied().collect(),
            Op::Anchor { .. } => vec![],
        };
        let regions_of = |w: &World, ids: &[u32]| -> Vec<(usize, usize)> {
            ids.iter().filter_map(|i| w.insts.get(i)).flat_map(|i| i.reals.iter()).filter_map(|r| w.slots.region_of(r.slot)).collect()
        };
        let mut allowed = regions_of(self, &named);
        let r = self.apply_inner(op);
        allowed.extend(regions_of(self, &named));
        let r = match r {
            Ok(so) => match self.slots.foreign_diff(&allowed) {
                Some((off, want, got)) => {
                    let victim = self
                        .insts
                        .values()
                        .find(|i| i.reals.iter().any(|x| self.slots.region_of(x.slot).map(|(o, l)| off >= o && off < o + l).unwrap_or(false)))
                        .map(|i| (i.id, i.fam));
                    let fam = victim.map(|v| v.1).or_else(|| named.first().and_then(|i| self.insts.get(i)).map(|i| i.fam)).unwrap_or(0);
                    Err(self.viol(
                        "C15",
                        "foreign-write",
                        fam,
                        "",
                        format!(
                            "operation {} wrote outside the storage of the instance(s) it works on: slab offset {} changed{}",
                            op.kind(),
                            off,
                            match victim {
                                Some((id, _)) => format!(", which belongs to live instance #{} - an operation on one instance modified another", id),
                                None => " (free storage next to the instances)".to_string(),
                            }
                        ),
                        &[want],
                        &[got],
                    ))
                }
                None => Ok(so),
            },
            Err(v) => Err(v),
        };
        // accept what the operation legitimately changed
        let live: Vec<(usize, usize)> = allowed.iter().copied().filter(|&(o, _)| self.slots.region_at(o).map(|(ro, _)| ro == o).unwrap_or(false)).collect();
        self.slots.sync(&live);
        match &r {
            Ok(so) => {
                if self.trace {
                    let mut d = Digest::default();
                    d.bytes(&so.out);
                    println!("@res {} applied={} out_len={} out={:016x}", self.step, so.applied, so.out.len(), d.finish());
                }
                if so.applied {
                    self.task_order.u64(op.task() as u64);
                    self.h_all.str(op.kind());
                    self.h_all.bytes(&so.out);
                    self.h_portable.str(op.kind());
                    self.h_portable.bytes(&so.out);
                } else {
                    self.stats.skipped += 1;
                }
            }
            Err(_) => {}
        }
        self.step += 1;
        r
    }

    fn apply_inner(&mut self, op: &Op) -> Result<StepOut, Violation> {
        let skip = || Ok(StepOut { applied: false, out: Vec::new() });
        match op {
            Op::New { id, fam, role, key, fixed, .. } => {
                if self.insts.contains_key(id) {
                    return skip();
                }
                let vids = match self.cfg.variants.get(fam) {
                    Some(v) => v.clone(),
                    None => return skip(),
                };
                let family = &self.reg.families[*fam];
                if *role != Role::Both && !family.split {
                    return skip();
                }
                if *fixed && key.len() != family.key_size {
                    return skip();
                }
                let mut reals = Vec::new();
                for &vidx in &vids {
                    let vs = &family.variants[vidx];
                    let ty = match vs.ty(*role) {
                        Some(t) => t,
                        None => continue,
                    };
                    let t = &self.reg.types[ty];
                    let slot = self.slots.alloc_packed(t.size, t.align, 0);
                    let p = self.slots.ptr(slot);
                    let ctor = if *fixed { t.new_fixed } else { t.new_from_slice };
                    poison_stack();
                    match guard(|| unsafe { ctor(p, key) }) {
                        Ok(true) => {
                            if t.detect && self.mask {
                                self.stats.f_mask_aes_construct += 1;
                            }
                            reals.push(Real { vidx, ty, slot });
                        }
                        Ok(false) => {
                            self.slots.free(slot);
                        }
                        Err(_) => {
                            self.stats.model_panics += 1;
                            self.slots.free(slot);
                        }
                    }
                }
                if reals.is_empty() {
                    return skip();
                }
                if reals.len() >= 4 {
                    self.stats.r_variants_ge4 += 1;
                }
                self.stats.op_new += 1;
                self.insts.insert(
                    *id,
                    Inst {
                        id: *id,
                        fam: *fam,
                        role: *role,
                        key: key.clone(),
                        route: vec![RouteStep::New { role: *role, fixed: *fixed }],
                        reals,
                        parent: None,
                        source_dropped: false,
                        relocated: false,
                    },
                );
                let mut out = vec![*fam as u8, *role as u8];
                out.extend_from_slice(key);
                Ok(StepOut { applied: true, out })
            }
            Op::Clone { id, src, .. } => {
                if self.insts.contains_key(id) {
                    return skip();
                }
                let s = match self.insts.get(src) {
                    Some(s) => s.clone(),
                    None => return skip(),
                };
                let mut reals = Vec::new();
                for r in &s.reals {
                    let t = &self.reg.types[r.ty];
                    let f = match t.clone {
                        Some(f) => f,
                        None => continue,
                    };
                    let slot = self.slots.alloc_packed(t.size, t.align, 0);
                    let (ps, pd) = (self.slots.ptr(r.slot), self.slots.ptr(slot));
                    poison_stack();
                    match guard(|| unsafe { f(ps, pd) }) {
                        Ok(()) => {
                            if t.detect && self.mask {
                                self.stats.r_soft_arm_clone += 1;
                            }
                            reals.push(Real { vidx: r.vidx, ty: r.ty, slot });
                        }
                        Err(e) => {
                            self.slots.free(slot);
                            return Err(self.viol("C12", "clone-panicked", s.fam, t.variant, e, &[], &[]));
                        }
                    }
                }
                if reals.is_empty() {
                    return skip();
                }
                self.stats.op_clone += 1;
                let mut route = s.route.clone();
                route.push(RouteStep::Clone);
                if route.len() >= 3 {
                    self.stats.r_route_depth_ge3 += 1;
                }
                self.insts.insert(
                    *id,
                    Inst { id: *id, fam: s.fam, role: s.role, key: s.key.clone(), route, reals, parent: Some(*src), source_dropped: false, relocated: false },
                );
                Ok(StepOut { applied: true, out: vec![s.fam as u8] })
            }
            Op::CloneFrom { id, src, .. } => {
                if id == src {
                    return skip();
                }
                let (d, s) = match (self.insts.get(id), self.insts.get(src)) {
                    (Some(d), Some(s)) => (d.clone(), s.clone()),
                    _ => return skip(),
                };
                if d.fam != s.fam || d.role != s.role {
                    return skip();
                }
                let mut done = 0;
                for rd in &d.reals {
                    // the realisation of the same build variant and type in the source
                    let rs = match s.reals.iter().find(|x| x.vidx == rd.vidx && x.ty == rd.ty) {
                        Some(x) => x,
                        None => continue,
                    };
                    let t = &self.reg.types[rd.ty];
                    let f = match t.clone_from {
                        Some(f) => f,
                        None => continue,
                    };
                    let (ps, pd) = (self.slots.ptr(rs.slot) as *const u8, self.slots.ptr(rd.slot));
                    poison_stack();
                    if let Err(e) = guard(|| unsafe { f(ps, pd) }) {
                        return Err(self.viol("C12", "clone-from-panicked", d.fam, t.variant, e, &[], &[]));
                    }
                    if t.detect && self.mask {
                        self.stats.r_soft_arm_clone += 1;
                    }
                    done += 1;
                }
                if done == 0 {
                    return skip();
                }
                // realisations the source lacks cannot follow: drop them so the bundle stays consistent
                let keep: Vec<Real> = d.reals.iter().filter(|rd| s.reals.iter().any(|x| x.vidx == rd.vidx && x.ty == rd.ty) && self.reg.types[rd.ty].clone_from.is_some()).cloned().collect();
                for rd in d.reals.iter().filter(|rd| !keep.iter().any(|k| k.slot == rd.slot)) {
                    let t = &self.reg.types[rd.ty];
                    let p = self.slots.ptr(rd.slot);
                    let _ = guard(|| unsafe { (t.drop)(p) });
                    self.slots.free(rd.slot);
                }
                self.stats.op_clone_from += 1;
                // the instance now holds another key: calls recorded for Repeat no longer describe it
                let dst = *id;
                self.calls.retain(|_, (c, _)| !matches!(c, Op::Call { id, .. } if *id == dst));
                let mut route = s.route.clone();
                route.push(RouteStep::Clone);
                let inst = self.insts.get_mut(id).unwrap();
                inst.reals = keep;
                inst.key = s.key.clone();
                inst.route = route;
                inst.parent = Some(*src);
                inst.source_dropped = false;
                Ok(StepOut { applied: true, out: vec![s.fam as u8, 0xCF] })
            }
            Op::Conv { id, src, to, by_ref, .. } => {
                if self.insts.contains_key(id) || *to == Role::Enc {
                    return skip();
                }
                let s = match self.insts.get(src) {
                    Some(s) => s.clone(),
                    None => return skip(),
                };
                if s.role != Role::Enc {
                    return skip();
                }
                let mut reals = Vec::new();
                let mut fail: Option<Violation> = None;
                for r in &s.reals {
                    let vs = self.vset(s.fam, r.vidx).clone();
                    let tty = match vs.ty(*to) {
                        Some(t) => t,
                        None => continue,
                    };
                    let c = match self.reg.conv(r.ty, tty) {
                        Some(c) => c.clone(),
                        None => continue,
                    };
                    let t = &self.reg.types[r.ty];
                    let (tsize, talign) = (self.reg.types[tty].size, self.reg.types[tty].align);
                    let slot = self.slots.alloc_packed(tsize, talign, 0);
                    let (ps, pd) = (self.slots.ptr(r.slot), self.slots.ptr(slot));
                    poison_stack();
                    let res = if *by_ref {
                        guard(|| unsafe { (c.by_ref)(ps, pd) })
                    } else {
                        guard(|| unsafe { (c.by_val)(ps, pd) })
                    };
                    match res {
                        Ok(()) => {
                            if t.detect && self.mask {
                                self.stats.r_soft_arm_conv += 1;
                            }
                            reals.push(Real { vidx: r.vidx, ty: tty, slot });
                        }
                        Err(e) => {
                            self.slots.free(slot);
                            fail = Some(self.viol("C12", "conversion-panicked", s.fam, t.variant, e, &[], &[]));
                        }
                    }
                }
                if !*by_ref {
                    // the source was moved out of: its storage is dead, no drop runs
                    let inst = self.insts.remove(src).unwrap();
                    for r in &inst.reals {
                        self.slots.free(r.slot);
                    }
                    for other in self.insts.values_mut() {
                        if other.parent == Some(*src) {
                            other.source_dropped = true;
                        }
                    }
                }
                if let Some(v) = fail {
                    for r in &reals {
                        let t = &self.reg.types[r.ty];
                        let p = self.slots.ptr(r.slot);
                        let _ = guard(|| unsafe { (t.drop)(p) });
                        self.slots.free(r.slot);
                    }
                    return Err(v);
                }
                if reals.is_empty() {
                    return skip();
                }
                if *by_ref {
                    self.stats.op_conv_ref += 1;
                } else {
                    self.stats.op_conv_val += 1;
                }
                let mut route = s.route.clone();
                route.push(RouteStep::Conv { to: *to, by_ref: *by_ref });
                if route.len() >= 3 {
                    self.stats.r_route_depth_ge3 += 1;
                }
                self.insts.insert(
                    *id,
                    Inst {
                        id: *id,
                        fam: s.fam,
                        role: *to,
                        key: s.key.clone(),
                        route,
                        reals,
                        parent: if *by_ref { Some(*src) } else { None },
                        source_dropped: !*by_ref,
                        relocated: false,
                    },
                );
                Ok(StepOut { applied: true, out: vec![s.fam as u8, *to as u8, *by_ref as u8] })
            }
            Op::Relocate { id, off, .. } => {
                let mut inst = match self.insts.get(id) {
                    Some(s) => s.clone(),
                    None => return skip(),
                };
                for r in inst.reals.iter_mut() {
                    let t = &self.reg.types[r.ty];
                    let o = self.slot_off(t, *off);
                    let ns = self.slots.alloc_packed(t.size, t.align, o);
                    unsafe { core::ptr::copy_nonoverlapping(self.slots.ptr(r.slot), self.slots.ptr(ns), t.size) };
                    self.slots.free(r.slot);
                    r.slot = ns;
                }
                inst.relocated = true;
                self.insts.insert(*id, inst);
                self.stats.op_relocate += 1;
                Ok(StepOut { applied: true, out: vec![] })
            }
            Op::Drop { id, .. } => {
                if !self.insts.contains_key(id) {
                    return skip();
                }
                let fam = self.insts[id].fam;
                self.stats.op_drop += 1;
                self.stats.f_drop_now_live += (self.insts.len() > 1) as u64;
                if let Err(e) = self.drop_inst(*id) {
                    return Err(self.viol("C15", "drop-panicked", fam, "", e, &[], &[]));
                }
                Ok(StepOut { applied: true, out: vec![] })
            }
            Op::Call { id, dir, shape, n, in_off, out_off, data, .. } => {
                self.do_call(op, *id, *dir, *shape, *n as usize, *in_off as usize, *out_off as usize, data, true)
            }
            Op::Anchor { ty, dir } => self.do_anchor(*ty, *dir),
            Op::EpochFlip { mask } => {
                if !self.insts.is_empty() {
                    self.stats.f_epoch_flip_with_live += 1;
                }
                self.drop_all();
                cpufeatures::sim::bump_epoch();
                cpufeatures::sim::set_mask(*mask);
                self.mask = *mask;
                self.stats.op_epoch_flip += 1;
                Ok(StepOut { applied: true, out: vec![] })
            }
            Op::Repeat { step } => {
                let (cop, prev) = match self.calls.get(step) {
                    Some(x) => x.clone(),
                    None => return skip(),
                };
                if let Op::Call { id, dir, shape, n, in_off, out_off, data, .. } = &cop {
                    let inst = match self.insts.get(id) {
                        Some(i) => i.clone(),
                        None => return skip(),
                    };
                    let r = self.do_call(&cop, *id, *dir, *shape, *n as usize, *in_off as usize, *out_off as usize, data, false)?;
                    if !r.applied {
                        return skip();
                    }
                    self.stats.op_repeat += 1;
                    if r.out != prev {
                        return Err(self.viol(
                            "C15",
                            "repeat-differs",
                            inst.fam,
                            "",
                            format!("call of step {} re-issued at step {} returned different bytes", step, self.step),
                            &prev,
                            &r.out,
                        ));
                    }
                    Ok(r)
                } else {
                    skip()
                }
            }
        }
    }

    fn do_anchor(&mut self, ty: usize, dir: Dir) -> Result<StepOut, Violation> {
        let e = match self.anchors.entries.iter().find(|e| e.ty == ty && e.dir == dir) {
            Some(e) => e.clone(),
            None => return Ok(StepOut { applied: false, out: vec![] }),
        };
        let t = self.reg.types[e.ty].clone();
        let fam = self.reg.family(t.family).unwrap();
        self.stats.op_anchor += 1;
        if t.detect && self.mask {
            self.stats.r_anchor_under_mask += 1;
        }
        match self.fresh_perblock(e.ty, &e.key, e.dir, &e.input) {
            Ok(out) => {
                if out != e.output {
                    let (prop, class) = if t.detect && self.mask { ("C03", "anchor-detection-arm") } else { ("C15", "anchor-drift") };
                    return Err(self.viol(
                        prop,
                        class,
                        fam,
                        t.variant,
                        format!("{} {} of the fixed anchor input no longer equals the value computed at process start", t.name, e.dir.name()),
                        &e.output,
                        &out,
                    ));
                }
                Ok(StepOut { applied: true, out })
            }
            Err(msg) => Err(self.viol("C15", "anchor-panicked", fam, t.variant, msg, &e.output, &[])),
        }
    }

    #[allow(clippy::too_many_arguments)]
    fn do_call(
        &mut self,
        op: &Op,
        id: u32,
        dir: Dir,
        shape: Shape,
        n: usize,
        in_off: usize,
        out_off: usize,
        data: &[u8],
        record: bool,
    ) -> Result<StepOut, Violation> {
        let skip = || Ok(StepOut { applied: false, out: Vec::new() });
        let inst = match self.insts.get(&id) {
            Some(i) => i.clone(),
            None => return skip(),
        };
        if !inst.role.can(dir) {
            return skip();
        }
        let fam = inst.fam;
        let bs = self.reg.families[fam].block;
        let len = n * bs;
        if shape.single() && n != 1 {
            return skip();
        }
        if data.len() != len || in_off + len > ARENA_BYTES || out_off + len > ARENA_BYTES {
            return skip();
        }
        let same = in_off == out_off;
        let disjoint = len == 0 || in_off + len <= out_off || out_off + len <= in_off;
        if (shape.in_place_only() && !same) || (shape.disjoint_only() && !disjoint) || (!same && !disjoint) {
            return skip();
        }
        if shape.disjoint_only() && same && len > 0 {
            return skip();
        }
        self.stats.op_call += 1;
        // placement statistics
        if len == 0 {
            self.stats.f_place_zero_len += 1;
        }
        if in_off % 16 != 0 || out_off % 16 != 0 {
            self.stats.f_place_unaligned += 1;
        }
        if !same && len > 0 {
            if out_off < in_off {
                self.stats.f_place_disjoint_below += 1;
            } else {
                self.stats.f_place_disjoint_above += 1;
            }
            if out_off + len == in_off || in_off + len == out_off {
                self.stats.f_place_touching += 1;
            }
        }
        if len > 0 && (in_off + len == ARENA_BYTES || out_off + len == ARENA_BYTES) {
            self.stats.f_place_arena_end += 1;
            if self.arena.is_strict() {
                self.stats.f_place_strict_arena_end += 1;
            }
        }
        if inst.relocated {
            self.stats.f_relocate_then_call += 1;
        }
        if inst.source_dropped {
            self.stats.f_drop_source_then_call += 1;
        }

        if self.deferred {
            return self.do_call_deferred(op, &inst, dir, shape, n, in_off, out_off, data, record);
        }
        // 1. reference per variant: fresh combined cipher, per block, private aligned buffer
        let mut refs: Vec<Result<Vec<u8>, String>> = Vec::with_capacity(inst.reals.len());
        for r in &inst.reals {
            let both = self.vset(fam, r.vidx).both;
            refs.push(self.fresh_perblock(both, &inst.key, dir, data));
        }
        // C03: every realisation's reference agrees
        let mut base: Option<(usize, &Vec<u8>)> = None;
        for (k, r) in refs.iter().enumerate() {
            if let Ok(v) = r {
                match base {
                    None => base = Some((k, v)),
                    Some((k0, v0)) => {
                        self.stats.r_c03_refs_compared += 1;
                        if v != v0 {
                            let va = self.vset(fam, inst.reals[k0].vidx).variant;
                            let vb = self.vset(fam, inst.reals[k].vidx).variant;
                            return Err(self.viol(
                                "C03",
                                "twin",
                                fam,
                                &format!("{}|{}", va, vb),
                                format!(
                                    "fresh {} ciphers of builds {} and {} disagree on {} (mask_aes={}) key={}",
                                    self.reg.families[fam].name, va, vb, dir.name(), self.mask, hex(&inst.key)
                                ),
                                v0,
                                v,
                            ));
                        }
                    }
                }
            }
        }
        let base_out: Vec<u8> = base.map(|(_, v)| v.clone()).unwrap_or_default();

        // 2. the actual call on every realisation, in the arena
        let mut good_variants: Vec<usize> = Vec::new();
        let mut first_bad: Option<(usize, Vec<u8>, Option<String>)> = None;
        for (k, r) in inst.reals.iter().enumerate() {
            let t = self.reg.types[r.ty].clone();
            let f = match t.call(dir) {
                Some(f) => f,
                None => continue,
            };
            if t.detect && self.mask {
                self.stats.f_mask_aes_call += 1;
                self.stats.r_soft_arm_call += 1;
            }
            // tail-class probes
            if !shape.single() {
                if let Some(pf) = t.par(dir) {
                    let ip = self.slots.ptr(r.slot);
                    if let Ok(par) = guard(|| unsafe { pf(ip) }) {
                        if par > 1 {
                            if n < par {
                                self.stats.r_tail_lt_par += 1;
                            } else if n == par {
                                self.stats.r_tail_eq_par += 1;
                            } else if n % par == 0 {
                                self.stats.r_tail_multi_par += 1;
                            } else {
                                self.stats.r_tail_gt_par += 1;
                            }
                        }
                    }
                }
            }
            self.arena.put(in_off, data);
            let (ip, pi, po) = (self.slots.ptr(r.slot) as *const u8, self.arena.ptr(in_off) as *const u8, self.arena.ptr(out_off));
            self.stats.cipher_calls += 1;
            self.stats.blocks_processed += n as u64;
            let res = guard(|| unsafe { f(ip, shape, pi, po, n) });
            let stray = self.arena.diff_outside(out_off, len);
            let got = self.arena.get(out_off, len);
            if let Some((off, e, a)) = stray {
                let in_input = !same && off >= in_off as i64 && off < (in_off + len) as i64;
                let (a, e) = (vec![a], e);
                self.arena.restore();
                return Err(self.viol(
                    "C04",
                    if in_input { "input-modified" } else { "stray-write" },
                    fam,
                    t.variant,
                    format!(
                        "{} {} {} n={} in_off={} out_off={}: byte at arena offset {} changed outside the output range",
                        t.name, dir.name(), shape.name(), n, in_off, out_off, off
                    ),
                    &[e],
                    &a,
                ));
            }
            self.arena.restore_range(out_off, len);
            match (&res, &refs[k]) {
                (Ok(()), Ok(want)) if &got == want => {
                    good_variants.push(r.vidx);
                }
                (Err(_), Err(_)) => {
                    self.stats.model_panics += 1;
                }
                _ => {
                    if first_bad.is_none() {
                        first_bad = Some((k, got, res.err()));
                    }
                }
            }
        }
        if let Some((k, got, perr)) = first_bad {
            let r = &inst.reals[k];
            let t = self.reg.types[r.ty].clone();
            let want = refs[k].clone().unwrap_or_default();
            let mut v = self.diagnose(&inst, r, &t, dir, shape, n, in_off, out_off, data, &want, &got, perr);
            // the same logical call came out right in another build variant: the result depends on the
            // configuration as well, whatever the primary cause is
            if v.prop != "C03" && good_variants.iter().any(|&g| g != r.vidx) {
                v.also.push("C03");
                let others: Vec<&str> = good_variants.iter().filter(|&&g| g != r.vidx).map(|&g| self.vset(fam, g).variant).collect();
                v.detail.push_str(&format!(" | the same call is correct in build variant(s) {}", others.join(",")));
            }
            return Err(v);
        }
        // commit the output so the arena evolves with the history
        if len > 0 && !base_out.is_empty() {
            self.arena.put(out_off, &base_out);
        }
        if record {
            self.calls.insert(self.step as u32, (op.clone(), base_out.clone()));
        }
        Ok(StepOut { applied: true, out: base_out })
    }

    #[allow(clippy::too_many_arguments)]
    fn do_call_deferred(
        &mut self,
        op: &Op,
        inst: &Inst,
        dir: Dir,
        shape: Shape,
        n: usize,
        in_off: usize,
        out_off: usize,
        data: &[u8],
        record: bool,
    ) -> Result<StepOut, Violation> {
        let fam = inst.fam;
        let len = data.len();
        let same = in_off == out_off;
        let mut outs = Vec::new();
        for r in inst.reals.iter() {
            let t = self.reg.types[r.ty].clone();
            let f = match t.call(dir) {
                Some(f) => f,
                None => continue,
            };
            if t.detect && self.mask {
                self.stats.f_mask_aes_call += 1;
                self.stats.r_soft_arm_call += 1;
            }
            self.arena.put(in_off, data);
            let (ip, pi, po) = (self.slots.ptr(r.slot) as *const u8, self.arena.ptr(in_off) as *const u8, self.arena.ptr(out_off));
            self.stats.cipher_calls += 1;
            self.stats.blocks_processed += n as u64;
            let res = guard(|| unsafe { f(ip, shape, pi, po, n) });
            let stray = self.arena.diff_outside(out_off, len);
            let got = self.arena.get(out_off, len);
            if let Some((off, e, a)) = stray {
                let in_input = !same && off >= in_off as i64 && off < (in_off + len) as i64;
                let (a, e) = (vec![a], e);
                self.arena.restore();
                return Err(self.viol(
                    "C04",
                    if in_input { "input-modified" } else { "stray-write" },
                    fam,
                    t.variant,
                    format!("{} {} {} n={} in_off={} out_off={}: byte at arena offset {} changed outside the output range", t.name, dir.name(), shape.name(), n, in_off, out_off, off),
                    &[e],
                    &a,
                ));
            }
            self.arena.restore_range(out_off, len);
            outs.push((r.vidx, r.ty, res.map(|_| got)));
        }
        let first: Vec<u8> = outs.iter().find_map(|o| o.2.as_ref().ok().cloned()).unwrap_or_default();
        if len > 0 && !first.is_empty() {
            self.arena.put(out_off, &first);
        }
        if record {
            self.calls.insert(self.step as u32, (op.clone(), first.clone()));
        }
        self.pending.push(Pending { step: self.step, inst: inst.clone(), dir, shape, n, in_off, out_off, data: data.to_vec(), mask: self.mask, outs });
        Ok(StepOut { applied: true, out: first })
    }

    /// Cold-start mode: the recorded calls as data, so that ANOTHER process can judge them too
    /// (state left behind by the first user of a process is the same for subject and oracle inside it).
    pub fn pending_records(&self) -> Vec<Value> {
        let mut out = Vec::new();
        for p in &self.pending {
            for (vidx, ty, res) in &p.outs {
                if let Ok(o) = res {
                    let both = self.vset(p.inst.fam, *vidx).both;
                    let t = &self.reg.types[*ty];
                    out.push(json!({"type": t.name, "both": self.reg.types[both].name, "key": hex(&p.inst.key), "dir": p.dir.name(),
                        "data": hex(&p.data), "out": hex(o), "mask_aes": p.mask, "detect": t.detect, "step": p.step,
                        "route": p.inst.route.iter().map(|s| s.name()).collect::<Vec<_>>()}));
                }
            }
        }
        out
    }

    /// Cold-start mode: judge every recorded call now that the history is over.
    pub fn settle(&mut self) -> Option<Violation> {
        let pend = std::mem::take(&mut self.pending);
        for p in pend {
            let fam = p.inst.fam;
            cpufeatures::sim::bump_epoch();
            cpufeatures::sim::set_mask(p.mask);
            let mut base: Option<(usize, Vec<u8>)> = None;
            for (vidx, ty, out) in &p.outs {
                let both = self.vset(fam, *vidx).both;
                let want = match self.fresh_perblock(both, &p.inst.key, p.dir, &p.data) {
                    Ok(w) => w,
                    Err(_) => {
                        if out.is_err() {
                            self.stats.model_panics += 1;
                        }
                        continue;
                    }
                };
                let t = self.reg.types[*ty].clone();
                match &base {
                    None => base = Some((*vidx, want.clone())),
                    Some((v0, w0)) => {
                        if *w0 != want {
                            let (va, vb) = (self.vset(fam, *v0).variant, self.vset(fam, *vidx).variant);
                            self.step = p.step;
                            return Some(self.viol("C03", "twin", fam, &format!("{}|{}", va, vb), format!("fresh ciphers of builds {} and {} disagree (mask_aes={}) key={}", va, vb, p.mask, hex(&p.inst.key)), w0, &want));
                        }
                    }
                }
                let got = out.clone().unwrap_or_default();
                if out.is_err() || got != want {
                    let route_s: Vec<String> = p.inst.route.iter().map(|s| s.name()).collect();
                    self.step = p.step;
                    let mut v = self.viol(
                        "C15",
                        if self.cfg_deferred { "undisturbed-history" } else { "cold-start" },
                        fam,
                        t.variant,
                        format!(
                            "{}, {} {} {} n={} (step {}, route=[{}], mask_aes={}, key={}) returned bytes that differ from a fresh instance evaluated after the history{}",
                            if self.cfg_deferred { "in a history during which no oracle touched the process (all reference evaluations postponed to its end)" } else { "in a process that had constructed nothing else before this history" },
                            t.name, p.dir.name(), p.shape.name(), p.n, p.step, route_s.join(","), p.mask, hex(&p.inst.key),
                            out.as_ref().err().map(|e| format!(" PANIC: {}", e)).unwrap_or_default()
                        ),
                        &want,
                        &got,
                    );
                    if p.inst.route.len() > 1 || p.inst.role != Role::Both {
                        v.also.push("C12");
                    }
                    if !p.shape.single() || p.in_off != p.out_off {
                        // cannot tell a placement defect from a history defect after the fact; re-check per block
                    }
                    return Some(v);
                }
            }
        }
        None
    }

    /// A realisation returned something other than its variant's fresh combined reference:
    /// find out which property that breaks.
    #[allow(clippy::too_many_arguments)]
    fn diagnose(
        &mut self,
        inst: &Inst,
        r: &Real,
        t: &TypeInfo,
        dir: Dir,
        shape: Shape,
        n: usize,
        in_off: usize,
        out_off: usize,
        data: &[u8],
        want: &[u8],
        got: &[u8],
        panic: Option<String>,
    ) -> Violation {
        let fam = inst.fam;
        let route_s: Vec<String> = inst.route.iter().map(|s| s.name()).collect();
        let ctx = format!(
            "{} {} {} n={} in_off={} out_off={} route=[{}] relocated={} source_dropped={} mask_aes={} key={}{}",
            t.name,
            dir.name(),
            shape.name(),
            n,
            in_off,
            out_off,
            route_s.join(","),
            inst.relocated,
            inst.source_dropped,
            self.mask,
            hex(&inst.key),
            panic.as_ref().map(|p| format!(" PANIC: {}", p)).unwrap_or_default()
        );
        let both = self.vset(fam, r.vidx).both;
        // (a) is the fresh reference itself stable?
        if let Ok(again) = self.fresh_perblock(both, &inst.key, dir, data) {
            if again != want {
                return self.viol("C15", "fresh-unstable", fam, t.variant, format!("two fresh instances disagree; {}", ctx), want, &again);
            }
        }
        // (b) replay the route from scratch, per block
        let routed = match self.replay_route(fam, r.vidx, &inst.key, &inst.route) {
            Ok((ty, s)) => {
                let tt = self.reg.types[ty].clone();
                let p = self.slots.ptr(s);
                let pb = perblock_on(&tt, p, dir, data);
                // (c) same shape and placement on the replayed instance
                let shaped = if let Some(f) = tt.call(dir) {
                    self.arena.put(in_off, data);
                    let (pi, po) = (self.arena.ptr(in_off) as *const u8, self.arena.ptr(out_off));
                    let res = guard(|| unsafe { f(p, shape, pi, po, n) });
                    let g = self.arena.get(out_off, n * tt.block);
                    self.arena.restore();
                    res.map(|_| g)
                } else {
                    Err("no call".into())
                };
                self.drop_scratch(ty, s);
                Some((pb, shaped))
            }
            Err(_) => None,
        };
        if let Some((pb, shaped)) = routed {
            let pb_ok = matches!(&pb, Ok(v) if v == want);
            let shaped_ok = matches!(&shaped, Ok(v) if v == want);
            if !pb_ok {
                // a freshly built instance that took the same construction route is already wrong
                let plain_new = inst.route.len() == 1 && inst.role == Role::Both;
                if plain_new {
                    // same type, same ctor, fresh: only `new` vs `new_from_slice` can differ
                    return self.viol("C15", "ctor-differs", fam, t.variant, format!("fresh instance via the same constructor disagrees with new_from_slice; {}", ctx), want, got);
                }
                return self.viol("C12", "route", fam, t.variant, format!("an instance built by this route disagrees with a freshly keyed combined cipher; {}", ctx), want, got);
            }
            if !shaped_ok {
                return self.viol("C04", "shape", fam, t.variant, format!("a fresh instance gives the right blocks one at a time but not through this call shape/placement; {}", ctx), want, got);
            }
        }
        self.viol("C15", "history", fam, t.variant, format!("this instance disagrees with a fresh one built the same way; {}", ctx), want, got)
    }

    /// End of run: drop everything; check the harness tripwire.
    pub fn finish(&mut self) {
        self.drop_all();
        let (a, b) = (self.scratch_a, self.scratch_b);
        let _ = (a, b);
    }
}
