//! VERIFICATION-ONLY software model of the intrinsics Miri does not interpret: five on aarch64
//! (`vaeseq_u8`, `vaesdq_u8`, `vaesmcq_u8`, `vaesimcq_u8`, `vqtbl4q_u8`) and one on x86
//! (`_mm_aeskeygenassist_si128`, redirected to `x86_keygenassist`).
//!
//! This file is not part of RustCrypto/block-ciphers. /verif/gen/shadows.py copies it into a
//! generated copy of the crate (aarch64 interpreter runs only) and adds one explicit `use`
//! after each `core::arch::aarch64::*` glob so these names resolve here; everything else in
//! the ARMv8 / NEON sources — target_arch predicates, #[target_feature] gating, loads/stores,
//! lane order — is the unmodified code. The AES S-box is derived from the GF(2^8) inverse
//! and the affine map (FIPS-197 5.1.1), not copied from any table in the repository.
#![allow(dead_code, non_snake_case, clippy::missing_safety_doc)]

#[cfg(target_arch = "aarch64")]
use core::arch::aarch64::{uint8x16_t, uint8x16x4_t};
#[cfg(target_arch = "aarch64")]
use core::mem::transmute;

const fn gmul(mut a: u8, mut b: u8) -> u8 {
    let mut p = 0u8;
    let mut i = 0;
    while i < 8 {
        if b & 1 != 0 {
            p ^= a;
        }
        let hi = a & 0x80;
        a <<= 1;
        if hi != 0 {
            a ^= 0x1b;
        }
        b >>= 1;
        i += 1;
    }
    p
}

const fn ginv(a: u8) -> u8 {
    if a == 0 {
        return 0;
    }
    // a^254
    let mut r = 1u8;
    let mut i = 0;
    while i < 254 {
        r = gmul(r, a);
        i += 1;
    }
    r
}

const fn sbox_entry(x: u8) -> u8 {
    let b = ginv(x);
    b ^ b.rotate_left(1) ^ b.rotate_left(2) ^ b.rotate_left(3) ^ b.rotate_left(4) ^ 0x63
}

const fn make_sbox() -> [u8; 256] {
    let mut t = [0u8; 256];
    let mut i = 0;
    while i < 256 {
        t[i] = sbox_entry(i as u8);
        i += 1;
    }
    t
}

const fn make_inv(s: &[u8; 256]) -> [u8; 256] {
    let mut t = [0u8; 256];
    let mut i = 0;
    while i < 256 {
        t[s[i] as usize] = i as u8;
        i += 1;
    }
    t
}

const SBOX: [u8; 256] = make_sbox();
const INV_SBOX: [u8; 256] = make_inv(&SBOX);

// state byte i = column i/4, row i%4 (FIPS-197 input ordering)
fn shift_rows(s: [u8; 16]) -> [u8; 16] {
    let mut o = [0u8; 16];
    for c in 0..4 {
        for r in 0..4 {
            o[4 * c + r] = s[4 * ((c + r) % 4) + r];
        }
    }
    o
}

fn inv_shift_rows(s: [u8; 16]) -> [u8; 16] {
    let mut o = [0u8; 16];
    for c in 0..4 {
        for r in 0..4 {
            o[4 * ((c + r) % 4) + r] = s[4 * c + r];
        }
    }
    o
}

fn mix(s: [u8; 16], m: [u8; 4]) -> [u8; 16] {
    let mut o = [0u8; 16];
    for c in 0..4 {
        for r in 0..4 {
            let mut v = 0u8;
            for k in 0..4 {
                v ^= gmul(m[(k + 4 - r) % 4], s[4 * c + k]);
            }
            o[4 * c + r] = v;
        }
    }
    o
}

pub fn aese(d: [u8; 16], k: [u8; 16]) -> [u8; 16] {
    let mut s = [0u8; 16];
    for i in 0..16 {
        s[i] = d[i] ^ k[i];
    }
    shift_rows(s).map(|b| SBOX[b as usize])
}

pub fn aesd(d: [u8; 16], k: [u8; 16]) -> [u8; 16] {
    let mut s = [0u8; 16];
    for i in 0..16 {
        s[i] = d[i] ^ k[i];
    }
    inv_shift_rows(s).map(|b| INV_SBOX[b as usize])
}

pub fn aesmc(d: [u8; 16]) -> [u8; 16] {
    mix(d, [2, 3, 1, 1])
}

pub fn aesimc(d: [u8; 16]) -> [u8; 16] {
    mix(d, [14, 11, 13, 9])
}

pub fn tbl4(tab: [[u8; 16]; 4], ix: [u8; 16]) -> [u8; 16] {
    let mut o = [0u8; 16];
    for i in 0..16 {
        let j = ix[i] as usize;
        o[i] = if j < 64 { tab[j / 16][j % 16] } else { 0 };
    }
    o
}

/// AESE: AddRoundKey, ShiftRows, SubBytes
#[cfg(target_arch = "aarch64")]
pub(crate) unsafe fn vaeseq_u8(data: uint8x16_t, key: uint8x16_t) -> uint8x16_t {
    unsafe { transmute(aese(transmute(data), transmute(key))) }
}

/// AESD: AddRoundKey, InvShiftRows, InvSubBytes
#[cfg(target_arch = "aarch64")]
pub(crate) unsafe fn vaesdq_u8(data: uint8x16_t, key: uint8x16_t) -> uint8x16_t {
    unsafe { transmute(aesd(transmute(data), transmute(key))) }
}

/// AESMC: MixColumns
#[cfg(target_arch = "aarch64")]
pub(crate) unsafe fn vaesmcq_u8(data: uint8x16_t) -> uint8x16_t {
    unsafe { transmute(aesmc(transmute(data))) }
}

/// AESIMC: InvMixColumns
#[cfg(target_arch = "aarch64")]
pub(crate) unsafe fn vaesimcq_u8(data: uint8x16_t) -> uint8x16_t {
    unsafe { transmute(aesimc(transmute(data))) }
}

/// TBL with a four-register table: out-of-range indices give 0
#[cfg(target_arch = "aarch64")]
pub(crate) unsafe fn vqtbl4q_u8(t: uint8x16x4_t, idx: uint8x16_t) -> uint8x16_t {
    unsafe { transmute(tbl4([transmute(t.0), transmute(t.1), transmute(t.2), transmute(t.3)], transmute(idx))) }
}

/// AESKEYGENASSIST: with X3..X0 the dwords of `a`,
/// result = [SubWord(X1), RotWord(SubWord(X1)) ^ rcon, SubWord(X3), RotWord(SubWord(X3)) ^ rcon]
pub fn keygenassist(a: [u8; 16], rcon: u8) -> [u8; 16] {
    let w = |i: usize| u32::from_le_bytes([a[4 * i], a[4 * i + 1], a[4 * i + 2], a[4 * i + 3]]);
    let sub = |x: u32| u32::from_le_bytes(x.to_le_bytes().map(|b| SBOX[b as usize]));
    let rot = |x: u32| x.rotate_right(8);
    let (x1, x3) = (sub(w(1)), sub(w(3)));
    let out = [x1, rot(x1) ^ rcon as u32, x3, rot(x3) ^ rcon as u32];
    let mut o = [0u8; 16];
    for i in 0..4 {
        o[4 * i..4 * i + 4].copy_from_slice(&out[i].to_le_bytes());
    }
    o
}

#[cfg(any(target_arch = "x86_64", target_arch = "x86"))]
pub(crate) unsafe fn x86_keygenassist(a: crate::verif_neon_model::X86Vec, imm: i32) -> crate::verif_neon_model::X86Vec {
    unsafe { core::mem::transmute(keygenassist(core::mem::transmute(a), imm as u8)) }
}

#[cfg(target_arch = "x86_64")]
pub(crate) type X86Vec = core::arch::x86_64::__m128i;
#[cfg(target_arch = "x86")]
pub(crate) type X86Vec = core::arch::x86::__m128i;
