//! This crate provides macros for runtime CPU feature detection. It's intended
//! as a stopgap until Rust [RFC 2725] adding first-class target feature detection
//! macros to `libcore` is implemented.
//!
//! # Supported target architectures
//!
//! *NOTE: target features with an asterisk are unstable (nightly-only) and
//! subject to change to match upstream name changes in the Rust standard
//! library.
//!
//! ## `aarch64`
//!
//! Linux, iOS, and macOS/ARM only (ARM64 does not support OS-independent feature detection)
//!
//! Target features:
//!
//! - `aes`*
//! - `sha2`*
//! - `sha3`*
//!
//! Linux only
//!
//! - `sm4`*
//!
//! ## `loongarch64`
//!
//! Linux only (LoongArch64 does not support OS-independent feature detection)
//!
//! Target features:
//!
//! - `lam`*
//! - `ual`*
//! - `fpu`*
//! - `lsx`*
//! - `lasx`*
//! - `crc32`*
//! - `complex`*
//! - `crypto`*
//! - `lvz`*
//! - `lbt.x86`*
//! - `lbt.arm`*
//! - `lbt.mips`*
//! - `ptw`*
//!
//! ## `x86`/`x86_64`
//!
//! OS independent and `no_std`-friendly
//!
//! Target features:
//!
//! - `adx`
//! - `aes`
//! - `avx`
//! - `avx2`
//! - `avx512bw`*
//! - `avx512cd`*
//! - `avx512dq`*
//! - `avx512er`*
//! - `avx512f`*
//! - `avx512ifma`*
//! - `avx512pf`*
//! - `avx512vl`*
//! - `bmi1`
//! - `bmi2`
//! - `fma`,
//! - `mmx`
//! - `pclmulqdq`
//! - `popcnt`
//! - `rdrand`
//! - `rdseed`
//! - `sgx`
//! - `sha`
//! - `sse`
//! - `sse2`
//! - `sse3`
//! - `sse4.1`
//! - `sse4.2`
//! - `ssse3`
//!
//! If you would like detection support for a target feature which is not on
//! this list, please [open a GitHub issue][gh].
//!
//! # Example
//! ```
//! # #[cfg(any(target_arch = "x86", target_arch = "x86_64"))]
//! # {
//! // This macro creates `cpuid_aes_sha` module
//! cpufeatures::new!(cpuid_aes_sha, "aes", "sha");
//!
//! // `token` is a Zero Sized Type (ZST) value, which guarantees
//! // that underlying static storage got properly initialized,
//! // which allows to omit initialization branch
//! let token: cpuid_aes_sha::InitToken = cpuid_aes_sha::init();
//!
//! if token.get() {
//!     println!("CPU supports both SHA and AES extensions");
//! } else {
//!     println!("SHA and AES extensions are not supported");
//! }
//!
//! // If stored value needed only once you can get stored value
//! // omitting the token
//! let val = cpuid_aes_sha::get();
//! assert_eq!(val, token.get());
//!
//! // Additionally you can get both token and value
//! let (token, val) = cpuid_aes_sha::init_get();
//! assert_eq!(val, token.get());
//! # }
//! ```
//!
//! Note that if all tested target features are enabled via compiler options
//! (e.g. by using `RUSTFLAGS`), the `get` method will always return `true`
//! and `init` will not use CPUID instruction. Such behavior allows
//! compiler to completely eliminate fallback code.
//!
//! After first call macro caches result and returns it in subsequent
//! calls, thus runtime overhead for them is minimal.
//!
//! [RFC 2725]: https://github.com/rust-lang/rfcs/pull/2725
//! [gh]: https://github.com/RustCrypto/utils/issues/new?title=cpufeatures:%20requesting%20support%20for%20CHANGEME%20target%20feature

#![no_std]
#![doc(
    html_logo_url = "https://raw.githubusercontent.com/RustCrypto/media/6ee8e381/logo.svg",
    html_favicon_url = "https://raw.githubusercontent.com/RustCrypto/media/6ee8e381/logo.svg"
)]

#[cfg(not(miri))]
#[cfg(target_arch = "aarch64")]
#[doc(hidden)]
pub mod aarch64;

#[cfg(not(miri))]
#[cfg(target_arch = "loongarch64")]
#[doc(hidden)]
pub mod loongarch64;

#[cfg(not(miri))]
#[cfg(any(target_arch = "x86", target_arch = "x86_64"))]
mod x86;

#[cfg(miri)]
mod miri;

// SEAM: under Miri the `miri` module is architecture-independent, so other (e.g. big-endian) targets may be
// interpreted; non-Miri builds keep upstream's restriction.
#[cfg(not(miri))]
#[cfg(not(any(
    target_arch = "aarch64",
    target_arch = "loongarch64",
    target_arch = "x86",
    target_arch = "x86_64"
)))]
compile_error!("This crate works only on `aarch64`, `loongarch64`, `x86`, and `x86-64` targets.");

/// Simulator seam (verification only; not part of upstream cpufeatures).
pub mod sim;

/// Create module with CPU feature detection code.
///
/// SEAM: identical in structure to upstream 0.2.17 (one atomic, `Relaxed`
/// load in `get`, `Relaxed` load plus on-miss `Relaxed` store in `init_get`).
/// Differences: the cached byte carries an epoch tag in the upper bits of the
/// same single atomic (so the simulator can invalidate every cache in the
/// process between runs), the atomic type comes from `sim` (core, or shuttle's
/// under the `shuttle` feature) and the detection result passes through
/// `sim::decide`.
#[macro_export]
macro_rules! new {
    ($mod_name:ident, $($tf:tt),+ $(,)?) => {
        mod $mod_name {
            use $crate::sim::{SeamAtomic, Relaxed};

            const UNINIT: u8 = u8::max_value();
            static STORAGE: SeamAtomic = SeamAtomic::new($crate::sim::UNINIT_WORD);

            /// Initialization token
            #[derive(Copy, Clone, Debug)]
            pub struct InitToken(());

            impl InitToken {
                /// Get initialized value
                #[inline(always)]
                pub fn get(&self) -> bool {
                    $crate::__unless_target_features! {
                        $($tf),+ => {
                            $crate::sim::decode_for_token(STORAGE.load(Relaxed)) == 1
                        }
                    }
                }
            }

            /// Get stored value and initialization token,
            /// initializing underlying storage if needed.
            #[inline]
            pub fn init_get() -> (InitToken, bool) {
                let res = $crate::__unless_target_features! {
                    $($tf),+ => {
                        #[cold]
                        fn init_inner() -> bool {
                            let res = $crate::__detect_target_features!($($tf),+);
                            STORAGE.store($crate::sim::encode(res as u8), Relaxed);
                            res
                        }

                        // Relaxed ordering is fine, as we only have a single atomic variable.
                        let val = $crate::sim::decode(STORAGE.load(Relaxed));

                        if val == UNINIT {
                            init_inner()
                        } else {
                            val == 1
                        }
                    }
                };

                (InitToken(()), res)
            }

            /// Initialize underlying storage if needed and get initialization token.
            #[inline]
            pub fn init() -> InitToken {
                init_get().0
            }

            /// Initialize underlying storage if needed and get stored value.
            #[inline]
            pub fn get() -> bool {
                init_get().1
            }
        }
    };
}
