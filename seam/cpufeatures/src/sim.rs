//! Simulator seam for deterministic simulation (verification only).
//!
//! Everything the simulator needs to own about CPU-feature detection:
//!
//! * `mask`  — fault `mask_aes`: "this machine lacks the feature". Natively the
//!   seam can only *remove* a feature the hardware really has, so no illegal
//!   instruction can ever be executed.
//! * `epoch` — every cache word is tagged with the epoch it was written in; a
//!   word from an older epoch reads as `UNINIT`. Bumping the epoch therefore
//!   resets every detection cache in the process at once. The simulator does
//!   this only while no token-holding value is alive.
//! * counters — how often detection really ran, hit the cache, was masked, and
//!   (a harness-error tripwire) how often a live token saw a stale cache.
//!
//! All of this lives in plain `core` atomics which are never scheduling points
//! under shuttle, so the schedule space is that of upstream's single atomic.

use core::sync::atomic::{AtomicBool, AtomicU32};

// statistics counters: 64-bit where the target has such atomics (some 32-bit targets the interpreter simulates do not)
#[cfg(target_has_atomic = "64")]
type AtomicCtr = core::sync::atomic::AtomicU64;
#[cfg(not(target_has_atomic = "64"))]
type AtomicCtr = core::sync::atomic::AtomicU32;

pub use core::sync::atomic::Ordering::Relaxed;

#[cfg(not(feature = "shuttle"))]
pub type SeamAtomic = core::sync::atomic::AtomicU32;
#[cfg(feature = "shuttle")]
pub type SeamAtomic = shuttle::sync::atomic::AtomicU32;

const UNINIT: u8 = u8::MAX;
/// Initial cache word: value `UNINIT`, epoch tag 0.
pub const UNINIT_WORD: u32 = UNINIT as u32;

static EPOCH: AtomicU32 = AtomicU32::new(0);
static MASK: AtomicBool = AtomicBool::new(false);
static MIRI_GRANT: AtomicBool = AtomicBool::new(false);

static DETECT_CALLS: AtomicCtr = AtomicCtr::new(0);
static MASKED_DECISIONS: AtomicCtr = AtomicCtr::new(0);
static CACHE_HITS: AtomicCtr = AtomicCtr::new(0);
static CACHE_MISSES: AtomicCtr = AtomicCtr::new(0);
static STALE_TOKEN_READS: AtomicCtr = AtomicCtr::new(0);
static TOKEN_READS: AtomicCtr = AtomicCtr::new(0);

#[inline]
fn tag() -> u32 {
    EPOCH.load(Relaxed) & 0x00ff_ffff
}

/// Encode a detection result for storage in the cache word.
#[inline]
pub fn encode(v: u8) -> u32 {
    (tag() << 8) | v as u32
}

/// Decode a cache word read by `init_get`.
#[inline]
pub fn decode(word: u32) -> u8 {
    if word >> 8 == tag() && word as u8 != UNINIT {
        CACHE_HITS.fetch_add(1, Relaxed);
        word as u8
    } else {
        CACHE_MISSES.fetch_add(1, Relaxed);
        UNINIT
    }
}

/// Decode a cache word read through a live `InitToken`.
///
/// Upstream guarantees the cache is initialised whenever a token exists. If the
/// simulator bumped the epoch while a token holder was alive that guarantee
/// would be broken *by the harness*; the tripwire counter makes that visible so
/// it is reported as a harness error and never as a violation.
#[inline]
pub fn decode_for_token(word: u32) -> u8 {
    TOKEN_READS.fetch_add(1, Relaxed);
    if word >> 8 == tag() && word as u8 != UNINIT {
        word as u8
    } else {
        STALE_TOKEN_READS.fetch_add(1, Relaxed);
        UNINIT
    }
}

/// Filter a real detection result through the fault mask.
#[inline]
pub fn decide(real: bool) -> bool {
    DETECT_CALLS.fetch_add(1, Relaxed);
    if MASK.load(Relaxed) {
        if real {
            MASKED_DECISIONS.fetch_add(1, Relaxed);
        }
        false
    } else {
        real
    }
}

/// What the interpreted machine supports under Miri.
#[inline]
pub fn decide_miri() -> bool {
    DETECT_CALLS.fetch_add(1, Relaxed);
    MIRI_GRANT.load(Relaxed) && !MASK.load(Relaxed)
}

/// Fault `mask_aes`: make detection answer "feature absent".
pub fn set_mask(on: bool) {
    MASK.store(on, Relaxed);
}

/// Current fault mask.
pub fn mask() -> bool {
    MASK.load(Relaxed)
}

/// Under Miri only: let detection succeed (requires modelled intrinsics).
pub fn set_miri_grant(on: bool) {
    MIRI_GRANT.store(on, Relaxed);
}

/// Invalidate every detection cache in the process.
pub fn bump_epoch() -> u32 {
    EPOCH.fetch_add(1, Relaxed) + 1
}

/// Current epoch.
pub fn epoch() -> u32 {
    EPOCH.load(Relaxed)
}

/// Seam counters.
#[derive(Clone, Copy, Debug, Default, PartialEq, Eq)]
pub struct Stats {
    pub detect_calls: u64,
    pub masked_decisions: u64,
    pub cache_hits: u64,
    pub cache_misses: u64,
    pub token_reads: u64,
    pub stale_token_reads: u64,
}

/// Read the seam counters.
pub fn stats() -> Stats {
    Stats {
        detect_calls: DETECT_CALLS.load(Relaxed) as u64,
        masked_decisions: MASKED_DECISIONS.load(Relaxed) as u64,
        cache_hits: CACHE_HITS.load(Relaxed) as u64,
        cache_misses: CACHE_MISSES.load(Relaxed) as u64,
        token_reads: TOKEN_READS.load(Relaxed) as u64,
        stale_token_reads: STALE_TOKEN_READS.load(Relaxed) as u64,
    }
}
