//! Minimal miri support.
//!
//! Miri is an interpreter, and though it tries to emulate the target CPU
//! it does not support any target features.
//!
//! SEAM: upstream short-circuits both macros to `false`, so the cache atomics
//! are never touched under Miri. Here the cache path runs as on hardware and
//! only the CPUID/hwcap query itself is stubbed: the simulator decides what
//! the interpreted "machine" supports (`sim::set_miri_grant`, default: no
//! features, which is upstream's answer).

#[macro_export]
#[doc(hidden)]
macro_rules! __unless_target_features {
    ($($tf:tt),+ => $body:expr ) => {
        $body
    };
}

#[macro_export]
#[doc(hidden)]
macro_rules! __detect_target_features {
    ($($tf:tt),+) => {
        $crate::sim::decide_miri()
    };
}
