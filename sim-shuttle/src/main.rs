//! sim-shuttle: the detection-cache first-use race with the hardware arm live.
//!
//! Miri cannot execute AES-NI key expansion, so this engine runs natively under
//! shuttle: the vendored cpufeatures cache uses shuttle's AtomicU32 (feature
//! `shuttle`), 2-4 shuttle threads construct, convert, clone and use the
//! autodetect AES types and call `hazmat::*` (second, independent cache); the
//! fault `mask_aes` and the workload come from `shuttle::rand`. Oracle: the
//! forced-soft build of the same crate, which never consults the cache.
//!
//! Scheduling points exist at the cache's atomics and at thread operations
//! (`thread::sleep(0)` between operations). Cipher code between them runs
//! atomically - intra-call preemption is the Miri engine's part.

//!
//! Second scenario (`--scenario wl`): the general thread workload over EVERY family and build variant of the
//! registry. The shuttle workspace builds each crate from a source copy in which every `core::sync` / `std::sync`
//! primitive is shuttle's (gen/shadows.py, `shuttle_sync`): whatever atomics or locks a crate uses become
//! scheduling points, so a shared instance that builds or switches state behind `&self` is interleaved with the
//! other threads' calls, clones and conversions at exactly those points - at native speed, thousands of schedules
//! per second, replayable from the persisted schedule. The unchanged tree uses no such primitive (only the
//! detection cache, already seamed), so there every call runs atomically and the scenario is cheap.

use aes_auto_z as auto;
use aes_soft_z as soft;
use cipher::{BlockCipherDecrypt, BlockCipherEncrypt, KeyInit};
use shuttle::rand::{Rng, thread_rng};
use shuttle::scheduler::{PctScheduler, RandomScheduler};
use shuttle::sync::Arc;
use shuttle::{Config, FailurePersistence, Runner, thread};
use std::sync::atomic::{AtomicU64, Ordering::Relaxed};
use std::time::Duration;

static EXECUTIONS: AtomicU64 = AtomicU64::new(0);
static OPS: AtomicU64 = AtomicU64::new(0);
static RACED: AtomicU64 = AtomicU64::new(0);
static MASKED: AtomicU64 = AtomicU64::new(0);
static HAZMAT: AtomicU64 = AtomicU64::new(0);
static SHARED_USES: AtomicU64 = AtomicU64::new(0);

fn die(msg: &str) -> ! {
    eprintln!("HARNESS-ERROR: {}", msg);
    std::process::exit(2)
}

macro_rules! size_ops {
    ($rng:expr, $shared:expr, $B:ident, $E:ident, $D:ident, $klen:expr) => {{
        let mut key = [0u8; $klen];
        $rng.fill(&mut key[..]);
        let mut blk = [0u8; 16];
        $rng.fill(&mut blk[..]);
        let want_e = {
            let c = soft::$B::new_from_slice(&key).unwrap();
            let mut b = cipher::Block::<soft::$B>::default();
            b.copy_from_slice(&blk);
            c.encrypt_block(&mut b);
            b
        };
        let want_d = {
            let c = soft::$B::new_from_slice(&key).unwrap();
            let mut b = cipher::Block::<soft::$B>::default();
            b.copy_from_slice(&blk);
            c.decrypt_block(&mut b);
            b
        };
        let mut b = cipher::Block::<auto::$B>::default();
        match $rng.gen_range(0..7u32) {
            0 => {
                let c = auto::$B::new_from_slice(&key).unwrap();
                b.copy_from_slice(&blk);
                c.encrypt_block(&mut b);
                assert_eq!(b[..], want_e[..], "combined encrypt");
                let c2 = c.clone();
                drop(c);
                thread::sleep(Duration::from_millis(0));
                b.copy_from_slice(&blk);
                c2.decrypt_block(&mut b);
                assert_eq!(b[..], want_d[..], "clone of combined decrypt");
            }
            1 => {
                let e = auto::$E::new_from_slice(&key).unwrap();
                thread::sleep(Duration::from_millis(0));
                let d = auto::$D::from(&e);
                let both = auto::$B::from(&e);
                b.copy_from_slice(&blk);
                e.encrypt_block(&mut b);
                assert_eq!(b[..], want_e[..], "enc-only encrypt");
                drop(e);
                b.copy_from_slice(&blk);
                d.decrypt_block(&mut b);
                assert_eq!(b[..], want_d[..], "dec from &enc");
                b.copy_from_slice(&blk);
                both.encrypt_block(&mut b);
                assert_eq!(b[..], want_e[..], "both from &enc");
            }
            2 => {
                let e = auto::$E::new_from_slice(&key).unwrap();
                let both: auto::$B = e.into();
                thread::sleep(Duration::from_millis(0));
                b.copy_from_slice(&blk);
                both.decrypt_block(&mut b);
                assert_eq!(b[..], want_d[..], "both from enc by value");
            }
            3 => {
                let d = auto::$D::new_from_slice(&key).unwrap();
                let mut bs = [b.clone(), b.clone(), b.clone()];
                for x in bs.iter_mut() {
                    x.copy_from_slice(&blk);
                }
                thread::sleep(Duration::from_millis(0));
                d.decrypt_blocks(&mut bs);
                for x in bs.iter() {
                    assert_eq!(x[..], want_d[..], "dec-only decrypt_blocks");
                }
            }
            4 => {
                // the shared instance of this size, if the main thread made one
                if let Some((c, k)) = $shared {
                    SHARED_USES.fetch_add(1, Relaxed);
                    let want = {
                        let s = soft::$B::new_from_slice(&k[..$klen]).unwrap();
                        let mut x = cipher::Block::<soft::$B>::default();
                        x.copy_from_slice(&blk);
                        s.encrypt_block(&mut x);
                        x
                    };
                    b.copy_from_slice(&blk);
                    c.encrypt_block(&mut b);
                    assert_eq!(b[..], want[..], "shared instance encrypt");
                    let cl = c.clone();
                    thread::sleep(Duration::from_millis(0));
                    b.copy_from_slice(&blk);
                    cl.encrypt_block(&mut b);
                    assert_eq!(b[..], want[..], "clone of shared instance");
                }
            }
            5 => {
                // hazmat: the second, independent detection cache
                HAZMAT.fetch_add(1, Relaxed);
                let mut rk = [0u8; 16];
                $rng.fill(&mut rk[..]);
                let mut x = auto::Block::default();
                x.copy_from_slice(&blk);
                let mut y = soft::Block::default();
                y.copy_from_slice(&blk);
                auto::hazmat::cipher_round(&mut x, (&rk).into());
                soft::hazmat::cipher_round(&mut y, (&rk).into());
                assert_eq!(x[..], y[..], "hazmat::cipher_round");
                thread::sleep(Duration::from_millis(0));
                auto::hazmat::equiv_inv_cipher_round(&mut x, (&rk).into());
                soft::hazmat::equiv_inv_cipher_round(&mut y, (&rk).into());
                assert_eq!(x[..], y[..], "hazmat::equiv_inv_cipher_round");
                auto::hazmat::mix_columns(&mut x);
                soft::hazmat::mix_columns(&mut y);
                auto::hazmat::inv_mix_columns(&mut x);
                soft::hazmat::inv_mix_columns(&mut y);
                assert_eq!(x[..], y[..], "hazmat::mix_columns / inv_mix_columns");
            }
            _ => {
                let e = auto::$E::new_from_slice(&key).unwrap();
                let e2 = e.clone();
                thread::sleep(Duration::from_millis(0));
                drop(e);
                let d: auto::$D = e2.into();
                b.copy_from_slice(&blk);
                d.decrypt_block(&mut b);
                assert_eq!(b[..], want_d[..], "dec from clone of enc by value");
            }
        }
    }};
}

fn scenario() {
    EXECUTIONS.fetch_add(1, Relaxed);
    let mut rng = thread_rng();
    // new epoch: every detection cache in the process reads as uninitialised again
    cpufeatures::sim::bump_epoch();
    let mask = rng.gen_bool(0.4);
    cpufeatures::sim::set_mask(mask);
    if mask {
        MASKED.fetch_add(1, Relaxed);
    }
    let s0 = cpufeatures::sim::stats();
    // optionally a shared instance built before the workers start (cache then already initialised)
    let mut k = [0u8; 32];
    rng.fill(&mut k[..]);
    let shared128: Option<(Arc<auto::Aes128>, [u8; 32])> =
        if rng.gen_bool(0.5) { Some((Arc::new(auto::Aes128::new_from_slice(&k[..16]).unwrap()), k)) } else { None };
    let shared256: Option<(Arc<auto::Aes256>, [u8; 32])> =
        if rng.gen_bool(0.3) { Some((Arc::new(auto::Aes256::new_from_slice(&k).unwrap()), k)) } else { None };
    let nthreads = rng.gen_range(2..=4usize);
    let mut hs = Vec::new();
    for _ in 0..nthreads {
        let s128 = shared128.clone();
        let s256 = shared256.clone();
        let nops = rng.gen_range(1..=4usize);
        hs.push(thread::spawn(move || {
            let mut rng = thread_rng();
            for _ in 0..nops {
                OPS.fetch_add(1, Relaxed);
                match rng.gen_range(0..3u32) {
                    0 => size_ops!(rng, s128.as_ref().map(|(c, k)| (c.clone(), *k)), Aes128, Aes128Enc, Aes128Dec, 16),
                    1 => size_ops!(rng, None::<(Arc<auto::Aes192>, [u8; 32])>, Aes192, Aes192Enc, Aes192Dec, 24),
                    _ => size_ops!(rng, s256.as_ref().map(|(c, k)| (c.clone(), *k)), Aes256, Aes256Enc, Aes256Dec, 32),
                }
                thread::sleep(Duration::from_millis(0));
            }
        }));
    }
    for h in hs {
        h.join().unwrap();
    }
    drop(shared128);
    drop(shared256);
    let s1 = cpufeatures::sim::stats();
    // reach probe: more than one thread went through the miss path of some cache in this execution
    if s1.detect_calls - s0.detect_calls >= 3 || (shared_none(&s0, &s1)) {
        RACED.fetch_add(1, Relaxed);
    }
    assert_eq!(s1.stale_token_reads, s0.stale_token_reads, "HARNESS: live token saw a stale cache");
}

fn shared_none(s0: &cpufeatures::sim::Stats, s1: &cpufeatures::sim::Stats) -> bool {
    // two caches exist (cipher types, hazmat): more detect calls than caches means a raced first use
    s1.detect_calls - s0.detect_calls > 2
}

// ---------------------------------------------------------------------------
// scenario "wl": shared instances of any family / variant, calls, clones, conversions, a volume-driving thread

use sim::registry::{Dir, Registry, Role, Shape, TypeInfo};
use std::sync::OnceLock;

static REG: OnceLock<Registry> = OnceLock::new();
static WL_FAMS: OnceLock<Vec<usize>> = OnceLock::new();
static WL_CALLS: AtomicU64 = AtomicU64::new(0);
static WL_CLONES: AtomicU64 = AtomicU64::new(0);
static WL_CONVS: AtomicU64 = AtomicU64::new(0);
static WL_STORMS: AtomicU64 = AtomicU64::new(0);

struct Raw {
    p: *mut u8,
    layout: std::alloc::Layout,
}
unsafe impl Send for Raw {}
unsafe impl Sync for Raw {}
impl Raw {
    fn new(t: &TypeInfo) -> Raw {
        let layout = std::alloc::Layout::from_size_align(t.size.max(1), t.align.max(16)).unwrap();
        let p = unsafe { std::alloc::alloc_zeroed(layout) };
        assert!(!p.is_null());
        Raw { p, layout }
    }
}
impl Drop for Raw {
    fn drop(&mut self) {
        unsafe { std::alloc::dealloc(self.p, self.layout) }
    }
}

fn wl_call(t: &TypeInfo, inst: *const u8, dir: Dir, shape: Shape, data: &[u8]) -> Vec<u8> {
    let f = t.call(dir).expect("direction");
    let n = data.len() / t.block;
    let mut inb = data.to_vec();
    if shape.in_place_only() {
        let p = inb.as_mut_ptr();
        unsafe { f(inst, shape, p as *const u8, p, n) };
        inb
    } else {
        let mut outb = vec![0u8; data.len()];
        unsafe { f(inst, shape, inb.as_ptr(), outb.as_mut_ptr(), n) };
        outb
    }
}

/// sequential model: a fresh instance of the same type, block by block (runs in the caller's thread like any call)
fn wl_model(t: &TypeInfo, key: &[u8], dir: Dir, data: &[u8]) -> Vec<u8> {
    let r = Raw::new(t);
    assert!(unsafe { (t.new_from_slice)(r.p, key) }, "model constructor refused the key");
    let mut out = Vec::with_capacity(data.len());
    for b in data.chunks(t.block) {
        out.extend(wl_call(t, r.p, dir, Shape::Block, b));
    }
    unsafe { (t.drop)(r.p) };
    out
}

#[derive(Clone)]
enum WOp {
    Call { inst: usize, dir: Dir, shape: Shape, data: Vec<u8>, want: Vec<u8> },
    CloneUse { inst: usize, dir: Dir, data: Vec<u8>, want: Vec<u8> },
    ConvUse { inst: usize, conv: usize, dir: Dir, data: Vec<u8>, want: Vec<u8> },
    NewUse { ty: usize, key: Vec<u8>, dir: Dir, data: Vec<u8>, want: Vec<u8> },
}

fn scenario_wl() {
    EXECUTIONS.fetch_add(1, Relaxed);
    let reg = REG.get().expect("registry");
    let fams = WL_FAMS.get().expect("families");
    let mut rng = thread_rng();
    cpufeatures::sim::bump_epoch();
    let mask = rng.gen_bool(0.3);
    cpufeatures::sim::set_mask(mask);
    // one family, one build variant per execution; 1-3 shared instances (fresh / pre-used / an Enc or Dec half)
    let fam = &reg.families[fams[rng.gen_range(0..fams.len())]];
    let vs = &fam.variants[rng.gen_range(0..fam.variants.len())];
    let klen = fam.key_lens[rng.gen_range(0..fam.key_lens.len())];
    let mut key = vec![0u8; klen];
    rng.fill(&mut key[..]);
    let dir_of = |rng: &mut shuttle::rand::rngs::ThreadRng, t: &TypeInfo| match t.role {
        Role::Enc => Dir::Enc,
        Role::Dec => Dir::Dec,
        Role::Both => {
            if rng.gen_bool(0.5) { Dir::Enc } else { Dir::Dec }
        }
    };
    let mut shared: Vec<(usize, Arc<Raw>)> = Vec::new();
    let nshared = rng.gen_range(1..=3usize);
    for k in 0..nshared {
        let role = if k >= 1 && fam.split && rng.gen_bool(0.4) { if rng.gen_bool(0.7) { Role::Enc } else { Role::Dec } } else { Role::Both };
        let ty = vs.ty(role).unwrap();
        let t = &reg.types[ty];
        if !(t.send && t.sync) {
            // not shareable by its own declaration: nothing to schedule here (the interpreter engine reports it)
            continue;
        }
        let r = Raw::new(t);
        assert!(unsafe { (t.new_from_slice)(r.p, &key) }, "constructor refused a key of an accepted length");
        if k == 1 {
            // pre-used in this thread: the workers start somewhere below whatever block count changes the instance
            let pre = rng.gen_range(1..=70usize);
            let mut data = vec![0u8; pre * t.block];
            rng.fill(&mut data[..]);
            let d = dir_of(&mut rng, t);
            let want = wl_model(t, &key, d, &data);
            let got = wl_call(t, r.p, d, Shape::Blocks, &data);
            assert!(got == want, "C15 violation: single-threaded pre-use of {} ({} blocks) differs from a fresh instance per block", t.name, pre);
        }
        shared.push((ty, Arc::new(r)));
    }
    if shared.is_empty() {
        return;
    }
    let storm = rng.gen_bool(0.5);
    if storm {
        WL_STORMS.fetch_add(1, Relaxed);
    }
    let nthreads = rng.gen_range(2..=4usize);
    let mut programs: Vec<Vec<WOp>> = Vec::new();
    for tid in 0..nthreads {
        let mut prog = Vec::new();
        let nops = if storm && tid == 0 { 6 * shared.len() } else { rng.gen_range(2..=5usize) };
        for k in 0..nops {
            let i = if storm && tid == 0 { k % shared.len() } else { rng.gen_range(0..shared.len()) };
            let t = &reg.types[shared[i].0];
            let d = dir_of(&mut rng, t);
            let kind = if storm && tid == 0 { 0 } else { rng.gen_range(0..10u32) };
            let nblk = if storm && tid == 0 { 8 } else { rng.gen_range(1..=3usize) };
            let mut data = vec![0u8; nblk * t.block];
            rng.fill(&mut data[..]);
            match kind {
                0..=3 => {
                    let shape = if storm && tid == 0 { Shape::Blocks } else { sim::registry::SHAPES[rng.gen_range(0..sim::registry::SHAPES.len())] };
                    let data = if shape.single() { data[..t.block].to_vec() } else { data };
                    let want = wl_model(t, &key, d, &data);
                    prog.push(WOp::Call { inst: i, dir: d, shape, data, want });
                }
                4..=6 if t.clone.is_some() && !(t.role == Role::Enc && kind == 6) => {
                    let want = wl_model(t, &key, d, &data);
                    prog.push(WOp::CloneUse { inst: i, dir: d, data, want });
                }
                6..=8 if t.role == Role::Enc => {
                    let convs: Vec<usize> = (0..reg.convs.len()).filter(|&c| reg.convs[c].from == shared[i].0).collect();
                    if let Some(&c) = convs.get(rng.gen_range(0..convs.len().max(1))) {
                        let tt = &reg.types[reg.convs[c].to];
                        let d2 = dir_of(&mut rng, tt);
                        let both = &reg.types[vs.both];
                        let want = wl_model(both, &key, d2, &data);
                        prog.push(WOp::ConvUse { inst: i, conv: c, dir: d2, data, want });
                    }
                }
                _ => {
                    let role = if fam.split { [Role::Both, Role::Enc, Role::Dec][rng.gen_range(0..3usize)] } else { Role::Both };
                    let ty = vs.ty(role).unwrap();
                    let tt = &reg.types[ty];
                    let d2 = dir_of(&mut rng, tt);
                    let mut k2 = vec![0u8; klen];
                    rng.fill(&mut k2[..]);
                    let both = &reg.types[vs.both];
                    let want = wl_model(both, &k2, d2, &data);
                    prog.push(WOp::NewUse { ty, key: k2, dir: d2, data, want });
                }
            }
        }
        programs.push(prog);
    }
    let shared = Arc::new(shared);
    let mut hs = Vec::new();
    for (tid, prog) in programs.into_iter().enumerate() {
        let shared = shared.clone();
        hs.push(thread::spawn(move || {
            let reg = REG.get().unwrap();
            for (k, op) in prog.into_iter().enumerate() {
                OPS.fetch_add(1, Relaxed);
                match op {
                    WOp::Call { inst, dir, shape, data, want } => {
                        WL_CALLS.fetch_add(1, Relaxed);
                        let t = &reg.types[shared[inst].0];
                        let got = wl_call(t, shared[inst].1.p, dir, shape, &data);
                        assert!(got == want, "C15 violation: thread {} op {}: {} {} {} on a shared instance returned bytes that differ from a fresh instance per block", tid, k, t.name, dir.name(), shape.name());
                    }
                    WOp::CloneUse { inst, dir, data, want } => {
                        WL_CLONES.fetch_add(1, Relaxed);
                        let t = &reg.types[shared[inst].0];
                        let r = Raw::new(t);
                        unsafe { (t.clone.unwrap())(shared[inst].1.p as *const u8, r.p) };
                        thread::sleep(Duration::from_millis(0));
                        let got = wl_call(t, r.p, dir, Shape::Blocks, &data);
                        unsafe { (t.drop)(r.p) };
                        assert!(got == want, "C15 violation (also C12): thread {} op {}: a clone of a shared {} taken while other threads use it returned bytes that differ from a fresh instance", tid, k, t.name);
                    }
                    WOp::ConvUse { inst, conv, dir, data, want } => {
                        WL_CONVS.fetch_add(1, Relaxed);
                        let c = &reg.convs[conv];
                        let tt = &reg.types[c.to];
                        let r = Raw::new(tt);
                        unsafe { (c.by_ref)(shared[inst].1.p as *const u8, r.p) };
                        let got = wl_call(tt, r.p, dir, Shape::Blocks, &data);
                        unsafe { (tt.drop)(r.p) };
                        assert!(got == want, "C15 violation (also C12): thread {} op {}: {} converted from a shared instance while other threads use it differs from a fresh combined cipher", tid, k, tt.name);
                    }
                    WOp::NewUse { ty, key, dir, data, want } => {
                        let t = &reg.types[ty];
                        let r = Raw::new(t);
                        assert!(unsafe { (t.new_from_slice)(r.p, &key) });
                        let got = wl_call(t, r.p, dir, Shape::Blocks, &data);
                        unsafe { (t.drop)(r.p) };
                        assert!(got == want, "C15 violation: thread {} op {}: a {} constructed and used while other threads work differs from a fresh instance", tid, k, t.name);
                    }
                }
                thread::sleep(Duration::from_millis(0));
            }
        }));
    }
    for h in hs {
        h.join().unwrap();
    }
    for (ty, r) in shared.iter() {
        unsafe { (reg.types[*ty].drop)(r.p) };
    }
}

fn arg<'a>(args: &'a [String], name: &str) -> Option<&'a str> {
    args.iter().position(|a| a == name).and_then(|i| args.get(i + 1)).map(|s| s.as_str())
}

fn init_wl(fams: &str) {
    let reg = sim::registry::build();
    let idx: Vec<usize> = if fams == "-" { (0..reg.families.len()).collect() } else { fams.split(',').map(|f| reg.family(f).unwrap_or_else(|| die(&format!("no family {}", f)))).collect() };
    let _ = WL_FAMS.set(idx);
    let _ = REG.set(reg);
}

fn main() {
    let args: Vec<String> = std::env::args().collect();
    match args.get(1).map(|s| s.as_str()) {
        Some("run") => {
            let seed: u64 = arg(&args, "--seed").and_then(|s| s.parse().ok()).unwrap_or(20261003);
            let iters: usize = arg(&args, "--iters").and_then(|s| s.parse().ok()).unwrap_or(2000);
            let sched = arg(&args, "--sched").unwrap_or("random").to_string();
            let dir = arg(&args, "--replay-dir").unwrap_or("/verif/replays").to_string();
            let _ = std::fs::create_dir_all(&dir);
            let wl = arg(&args, "--scenario") == Some("wl");
            if wl {
                init_wl(arg(&args, "--families").unwrap_or("-"));
            }
            let scenario: fn() = if wl { scenario_wl } else { scenario };
            let mut cfg = Config::new();
            // a crate that spins on an atomic must not turn the step bound into a failure
            cfg.max_steps = shuttle::MaxSteps::ContinueAfter(2_000_000);
            // cipher code puts key schedules and batches on the stack; shuttle's default coroutine stack is 32 KiB
            cfg.stack_size = 1 << 20;
            cfg.failure_persistence = FailurePersistence::File(Some(dir.clone().into()));
            let before: std::collections::HashSet<_> = std::fs::read_dir(&dir).map(|d| d.flatten().map(|e| e.path()).collect()).unwrap_or_default();
            std::panic::set_hook(Box::new(|_| {}));
            let r = std::panic::catch_unwind(move || {
                if sched == "pct" {
                    Runner::new(PctScheduler::new_from_seed(seed, 3, iters), cfg).run(scenario);
                } else {
                    Runner::new(RandomScheduler::new_from_seed(seed, iters), cfg).run(scenario);
                }
            });
            println!(
                "STATS executions={} thread_ops={} first_use_raced={} masked_executions={} hazmat_ops={} shared_uses={} wl_calls={} wl_clones={} wl_convs={} wl_storms={}",
                EXECUTIONS.load(Relaxed), OPS.load(Relaxed), RACED.load(Relaxed), MASKED.load(Relaxed), HAZMAT.load(Relaxed), SHARED_USES.load(Relaxed),
                WL_CALLS.load(Relaxed), WL_CLONES.load(Relaxed), WL_CONVS.load(Relaxed), WL_STORMS.load(Relaxed)
            );
            match r {
                Ok(_) => println!("RESULT ok"),
                Err(e) => {
                    let msg = e.downcast_ref::<String>().cloned().or_else(|| e.downcast_ref::<&str>().map(|s| s.to_string())).unwrap_or_default();
                    let after: Vec<_> = std::fs::read_dir(&dir).map(|d| d.flatten().map(|e| e.path()).filter(|p| !before.contains(p)).collect()).unwrap_or_default();
                    let file = after.first().map(|p| p.display().to_string()).unwrap_or_default();
                    println!("RESULT violation schedule={} message={}", file, msg.replace('\n', " | "));
                    std::process::exit(1);
                }
            }
        }
        Some("replay") => {
            let f = args.get(2).unwrap_or_else(|| die("replay <schedule file>"));
            let wl = arg(&args, "--scenario") == Some("wl");
            if wl {
                init_wl(arg(&args, "--families").unwrap_or("-"));
            }
            let scenario: fn() = if wl { scenario_wl } else { scenario };
            std::panic::set_hook(Box::new(|_| {}));
            let f2 = f.clone();
            match std::panic::catch_unwind(move || {
                let sched = shuttle::scheduler::ReplayScheduler::new_from_file(f2).expect("could not load schedule from file");
                let mut cfg = Config::new();
                cfg.max_steps = shuttle::MaxSteps::ContinueAfter(2_000_000);
                cfg.stack_size = 1 << 20;
                cfg.failure_persistence = FailurePersistence::None;
                Runner::new(sched, cfg).run(scenario)
            }) {
                Ok(_) => println!("NOT-REPRODUCED"),
                Err(e) => {
                    let msg = e.downcast_ref::<String>().cloned().or_else(|| e.downcast_ref::<&str>().map(|s| s.to_string())).unwrap_or_default();
                    println!("REPRODUCED {}", msg.replace('\n', " | "));
                    std::process::exit(1);
                }
            }
        }
        _ => die("usage: sim-shuttle run --seed S --iters N --sched random|pct --replay-dir D | replay <file>"),
    }
}
