//! sim-shuttle: the detection-cache first-use race with the hardware arm live.
//!
//! Miri cannot execute AES-NI key expansion, so this engine runs natively under
//! shuttle: the vendored cpufeatures cache uses shuttle's AtomicU32 (feature
//! `shuttle`), 2-4 shuttle threads construct, convert, clone and use the
//! autodetect AES types and call `hazmat::*` (second, independent cache); the
//! fault `mask_aes` and the workload come from `shuttle::rand`. Oracle: the
//! forced-soft build of the same crate, which never consults the cache.
//!
//! Scheduling points exist at the cache's atomics and at thread operations
//! (`thread::sleep(0)` between operations). Cipher code between them runs
//! atomically - intra-call preemption is the Miri engine's part.

use aes_auto_z as auto;
use aes_soft_z as soft;
use cipher::{BlockCipherDecrypt, BlockCipherEncrypt, KeyInit};
use shuttle::rand::{Rng, thread_rng};
use shuttle::scheduler::{PctScheduler, RandomScheduler};
use shuttle::sync::Arc;
use shuttle::{Config, FailurePersistence, Runner, thread};
use std::sync::atomic::{AtomicU64, Ordering::Relaxed};
use std::time::Duration;

static EXECUTIONS: AtomicU64 = AtomicU64::new(0);
static OPS: AtomicU64 = AtomicU64::new(0);
static RACED: AtomicU64 = AtomicU64::new(0);
static MASKED: AtomicU64 = AtomicU64::new(0);
static HAZMAT: AtomicU64 = AtomicU64::new(0);
static SHARED_USES: AtomicU64 = AtomicU64::new(0);

fn die(msg: &str) -> ! {
    eprintln!("HARNESS-ERROR: {}", msg);
    std::process::exit(2)
}

macro_rules! size_ops {
    ($rng:expr, $shared:expr, $B:ident, $E:ident, $D:ident, $klen:expr) => {{
        let mut key = [0u8; $klen];
        $rng.fill(&mut key[..]);
        let mut blk = [0u8; 16];
        $rng.fill(&mut blk[..]);
        let want_e = {
            let c = soft::$B::new_from_slice(&key).unwrap();
            let mut b = cipher::Block::<soft::$B>::default();
            b.copy_from_slice(&blk);
            c.encrypt_block(&mut b);
            b
        };
        let want_d = {
            let c = soft::$B::new_from_slice(&key).unwrap();
            let mut b = cipher::Block::<soft::$B>::default();
            b.copy_from_slice(&blk);
            c.decrypt_block(&mut b);
            b
        };
        let mut b = cipher::Block::<auto::$B>::default();
        match $rng.gen_range(0..7u32) {
            0 => {
                let c = auto::$B::new_from_slice(&key).unwrap();
                b.copy_from_slice(&blk);
                c.encrypt_block(&mut b);
                assert_eq!(b[..], want_e[..], "combined encrypt");
                let c2 = c.clone();
                drop(c);
                thread::sleep(Duration::from_millis(0));
                b.copy_from_slice(&blk);
                c2.decrypt_block(&mut b);
                assert_eq!(b[..], want_d[..], "clone of combined decrypt");
            }
            1 => {
                let e = auto::$E::new_from_slice(&key).unwrap();
                thread::sleep(Duration::from_millis(0));
                let d = auto::$D::from(&e);
                let both = auto::$B::from(&e);
                b.copy_from_slice(&blk);
                e.encrypt_block(&mut b);
                assert_eq!(b[..], want_e[..], "enc-only encrypt");
                drop(e);
                b.copy_from_slice(&blk);
                d.decrypt_block(&mut b);
                assert_eq!(b[..], want_d[..], "dec from &enc");
                b.copy_from_slice(&blk);
                both.encrypt_block(&mut b);
                assert_eq!(b[..], want_e[..], "both from &enc");
            }
            2 => {
                let e = auto::$E::new_from_slice(&key).unwrap();
                let both: auto::$B = e.into();
                thread::sleep(Duration::from_millis(0));
                b.copy_from_slice(&blk);
                both.decrypt_block(&mut b);
                assert_eq!(b[..], want_d[..], "both from enc by value");
            }
            3 => {
                let d = auto::$D::new_from_slice(&key).unwrap();
                let mut bs = [b.clone(), b.clone(), b.clone()];
                for x in bs.iter_mut() {
                    x.copy_from_slice(&blk);
                }
                thread::sleep(Duration::from_millis(0));
                d.decrypt_blocks(&mut bs);
                for x in bs.iter() {
                    assert_eq!(x[..], want_d[..], "dec-only decrypt_blocks");
                }
            }
            4 => {
                // the shared instance of this size, if the main thread made one
                if let Some((c, k)) = $shared {
                    SHARED_USES.fetch_add(1, Relaxed);
                    let want = {
                        let s = soft::$B::new_from_slice(&k[..$klen]).unwrap();
                        let mut x = cipher::Block::<soft::$B>::default();
                        x.copy_from_slice(&blk);
                        s.encrypt_block(&mut x);
                        x
                    };
                    b.copy_from_slice(&blk);
                    c.encrypt_block(&mut b);
                    assert_eq!(b[..], want[..], "shared instance encrypt");
                    let cl = c.clone();
                    thread::sleep(Duration::from_millis(0));
                    b.copy_from_slice(&blk);
                    cl.encrypt_block(&mut b);
                    assert_eq!(b[..], want[..], "clone of shared instance");
                }
            }
            5 => {
                // hazmat: the second, independent detection cache
                HAZMAT.fetch_add(1, Relaxed);
                let mut rk = [0u8; 16];
                $rng.fill(&mut rk[..]);
                let mut x = auto::Block::default();
                x.copy_from_slice(&blk);
                let mut y = soft::Block::default();
                y.copy_from_slice(&blk);
                auto::hazmat::cipher_round(&mut x, (&rk).into());
                soft::hazmat::cipher_round(&mut y, (&rk).into());
                assert_eq!(x[..], y[..], "hazmat::cipher_round");
                thread::sleep(Duration::from_millis(0));
                auto::hazmat::equiv_inv_cipher_round(&mut x, (&rk).into());
                soft::hazmat::equiv_inv_cipher_round(&mut y, (&rk).into());
                assert_eq!(x[..], y[..], "hazmat::equiv_inv_cipher_round");
                auto::hazmat::mix_columns(&mut x);
                soft::hazmat::mix_columns(&mut y);
                auto::hazmat::inv_mix_columns(&mut x);
                soft::hazmat::inv_mix_columns(&mut y);
                assert_eq!(x[..], y[..], "hazmat::mix_columns / inv_mix_columns");
            }
            _ => {
                let e = auto::$E::new_from_slice(&key).unwrap();
                let e2 = e.clone();
                thread::sleep(Duration::from_millis(0));
                drop(e);
                let d: auto::$D = e2.into();
                b.copy_from_slice(&blk);
                d.decrypt_block(&mut b);
                assert_eq!(b[..], want_d[..], "dec from clone of enc by value");
            }
        }
    }};
}

fn scenario() {
    EXECUTIONS.fetch_add(1, Relaxed);
    let mut rng = thread_rng();
    // new epoch: every detection cache in the process reads as uninitialised again
    cpufeatures::sim::bump_epoch();
    let mask = rng.gen_bool(0.4);
    cpufeatures::sim::set_mask(mask);
    if mask {
        MASKED.fetch_add(1, Relaxed);
    }
    let s0 = cpufeatures::sim::stats();
    // optionally a shared instance built before the workers start (cache then already initialised)
    let mut k = [0u8; 32];
    rng.fill(&mut k[..]);
    let shared128: Option<(Arc<auto::Aes128>, [u8; 32])> =
        if rng.gen_bool(0.5) { Some((Arc::new(auto::Aes128::new_from_slice(&k[..16]).unwrap()), k)) } else { None };
    let shared256: Option<(Arc<auto::Aes256>, [u8; 32])> =
        if rng.gen_bool(0.3) { Some((Arc::new(auto::Aes256::new_from_slice(&k).unwrap()), k)) } else { None };
    let nthreads = rng.gen_range(2..=4usize);
    let mut hs = Vec::new();
    for _ in 0..nthreads {
        let s128 = shared128.clone();
        let s256 = shared256.clone();
        let nops = rng.gen_range(1..=4usize);
        hs.push(thread::spawn(move || {
            let mut rng = thread_rng();
            for _ in 0..nops {
                OPS.fetch_add(1, Relaxed);
                match rng.gen_range(0..3u32) {
                    0 => size_ops!(rng, s128.as_ref().map(|(c, k)| (c.clone(), *k)), Aes128, Aes128Enc, Aes128Dec, 16),
                    1 => size_ops!(rng, None::<(Arc<auto::Aes192>, [u8; 32])>, Aes192, Aes192Enc, Aes192Dec, 24),
                    _ => size_ops!(rng, s256.as_ref().map(|(c, k)| (c.clone(), *k)), Aes256, Aes256Enc, Aes256Dec, 32),
                }
                thread::sleep(Duration::from_millis(0));
            }
        }));
    }
    for h in hs {
        h.join().unwrap();
    }
    drop(shared128);
    drop(shared256);
    let s1 = cpufeatures::sim::stats();
    // reach probe: more than one thread went through the miss path of some cache in this execution
    if s1.detect_calls - s0.detect_calls >= 3 || (shared_none(&s0, &s1)) {
        RACED.fetch_add(1, Relaxed);
    }
    assert_eq!(s1.stale_token_reads, s0.stale_token_reads, "HARNESS: live token saw a stale cache");
}

fn shared_none(s0: &cpufeatures::sim::Stats, s1: &cpufeatures::sim::Stats) -> bool {
    // two caches exist (cipher types, hazmat): more detect calls than caches means a raced first use
    s1.detect_calls - s0.detect_calls > 2
}

fn arg<'a>(args: &'a [String], name: &str) -> Option<&'a str> {
    args.iter().position(|a| a == name).and_then(|i| args.get(i + 1)).map(|s| s.as_str())
}

fn main() {
    let args: Vec<String> = std::env::args().collect();
    match args.get(1).map(|s| s.as_str()) {
        Some("run") => {
            let seed: u64 = arg(&args, "--seed").and_then(|s| s.parse().ok()).unwrap_or(20261003);
            let iters: usize = arg(&args, "--iters").and_then(|s| s.parse().ok()).unwrap_or(2000);
            let sched = arg(&args, "--sched").unwrap_or("random").to_string();
            let dir = arg(&args, "--replay-dir").unwrap_or("/verif/replays").to_string();
            let _ = std::fs::create_dir_all(&dir);
            let mut cfg = Config::new();
            cfg.failure_persistence = FailurePersistence::File(Some(dir.clone().into()));
            let before: std::collections::HashSet<_> = std::fs::read_dir(&dir).map(|d| d.flatten().map(|e| e.path()).collect()).unwrap_or_default();
            std::panic::set_hook(Box::new(|_| {}));
            let r = std::panic::catch_unwind(move || {
                if sched == "pct" {
                    Runner::new(PctScheduler::new_from_seed(seed, 3, iters), cfg).run(scenario);
                } else {
                    Runner::new(RandomScheduler::new_from_seed(seed, iters), cfg).run(scenario);
                }
            });
            println!(
                "STATS executions={} thread_ops={} first_use_raced={} masked_executions={} hazmat_ops={} shared_uses={}",
                EXECUTIONS.load(Relaxed), OPS.load(Relaxed), RACED.load(Relaxed), MASKED.load(Relaxed), HAZMAT.load(Relaxed), SHARED_USES.load(Relaxed)
            );
            match r {
                Ok(_) => println!("RESULT ok"),
                Err(e) => {
                    let msg = e.downcast_ref::<String>().cloned().or_else(|| e.downcast_ref::<&str>().map(|s| s.to_string())).unwrap_or_default();
                    let after: Vec<_> = std::fs::read_dir(&dir).map(|d| d.flatten().map(|e| e.path()).filter(|p| !before.contains(p)).collect()).unwrap_or_default();
                    let file = after.first().map(|p| p.display().to_string()).unwrap_or_default();
                    println!("RESULT violation schedule={} message={}", file, msg.replace('\n', " | "));
                    std::process::exit(1);
                }
            }
        }
        Some("replay") => {
            let f = args.get(2).unwrap_or_else(|| die("replay <schedule file>"));
            std::panic::set_hook(Box::new(|_| {}));
            let f2 = f.clone();
            match std::panic::catch_unwind(move || shuttle::replay_from_file(scenario, f2)) {
                Ok(_) => println!("NOT-REPRODUCED"),
                Err(e) => {
                    let msg = e.downcast_ref::<String>().cloned().or_else(|| e.downcast_ref::<&str>().map(|s| s.to_string())).unwrap_or_default();
                    println!("REPRODUCED {}", msg.replace('\n', " | "));
                    std::process::exit(1);
                }
            }
        }
        _ => die("usage: sim-shuttle run --seed S --iters N --sched random|pct --replay-dir D | replay <file>"),
    }
}
